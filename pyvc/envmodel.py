"""Trusted environment models (DESIGN.md 2.6-2.7): everything the repository code calls into.

Each model is the *contract* of an environment call over the ghost world; they are the trusted
base of every proof and are listed by id (E-FILE-R, E-FILE-A, E-OS, E-SYNC, E-HASH, E-ZLIB, E-SQL ...)
in the evidence files through `vc.used_env`.
"""
from __future__ import annotations

import z3

from . import engine as E
from .engine import (BoundMethod, CheckerError, Closure, Dummy, EnumVal, ExcClass, ExcVal, GenObj, MDict, MList, MSet,
                     PathEnd, PyObj, PyRaise, RepoClass, RepoFunc, cur, raise_py)
from .values import (SV, SBool, SBytes, SInt, SSet, SStr, Unsupported, _SSeq, b_and, b_not, b_or, conc, fresh_name,
                     implies, is_sym, ite, py_eq, slen, smax, smin)

ALWAYS_INLINE = set()

StrS = z3.StringSort()
IntS = z3.IntSort()
BoolS = z3.BoolSort()

# ----------------------------------------------------------------------------- spec functions (uninterpreted)
H_fn = z3.Function('H', StrS, StrS, StrS)              # H(hash_type, content) -> hex digest
DEC_fn = z3.Function('dec', StrS, StrS)                # inflation of a complete zlib stream
ZVALID_fn = z3.Function('zvalid', StrS, BoolS)         # the string is a complete, valid zlib stream
ZEROS_fn = z3.Function('zeros', IntS, StrS)            # b'\0' * n
INTSTR_fn = z3.Function('int_to_str', IntS, StrS)
STRINT_fn = z3.Function('str_to_int', StrS, IntS)
RATIO_fn = z3.Function('ratio', IntS, IntS, IntS)      # abstract (rounded) real division, only compared


def used(tag):
    vc = cur()
    if vc is not None:
        vc.ghost.setdefault('__env_used__', set()).add(tag)
        vc.env_used.add(tag)


def H(t, b):
    """Spec function: hex digest of bytes b under hash type t."""
    used('E-HASH')
    r = SStr(H_fn(SStr.of(t).t, SBytes.of(b).t))
    vc = cur()
    vc.key(r)
    return r


def dec(compressed, s):
    """Spec function: dec(False, s) = s ; dec(True, s) = inflation of s."""
    if compressed is False:
        return SBytes.of(s)
    if compressed is True:
        return SBytes(DEC_fn(SBytes.of(s).t))
    c = SBool.of(compressed)
    return SBytes(z3.If(c.t, DEC_fn(SBytes.of(s).t), SBytes.of(s).t))


def zvalid(s):
    return SBool(ZVALID_fn(SBytes.of(s).t))


# ----------------------------------------------------------------------------- small helpers required by interp
def int_to_str(x):
    return IntStr(x)


class IntStr:
    """str(n) for a symbolic int n, kept structured so that path arithmetic can be inverted."""

    def __init__(self, n):
        self.n = SInt.of(n)

    def sym_eq(self, I, o):
        if isinstance(o, IntStr):
            return self.n == o.n
        if isinstance(o, str):
            try:
                v = int(o)
            except ValueError:
                return False
            if str(v) != o:
                return False
            return self.n == v
        if isinstance(o, (SStr, StrCat)):
            return flatten_str(I, self) == flatten_str(I, o)
        return False

    def sym_str(self, I):
        return self

    def sym_truth(self, vc):
        return True

    def sym_binop(self, I, op, other):
        if op == 'Add':
            return StrCat([self, other])
        raise Unsupported('IntStr op')

    def sym_rbinop(self, I, op, other):
        if op == 'Add':
            return StrCat([other, self])
        raise Unsupported('IntStr op')

    def __repr__(self):
        return f'IntStr({self.n.t})'


class StrCat:
    """Structured concatenation containing an IntStr (e.g. f'{pack_id}.lock')."""

    def __init__(self, parts):
        self.parts = parts

    def __repr__(self):
        return f'StrCat({self.parts})'

    def sym_eq(self, I, o):
        if isinstance(o, (str, SStr, StrCat, IntStr)):
            return flatten_str(I, self) == flatten_str(I, o)
        return False

    def sym_str(self, I):
        return self

    def sym_truth(self, vc):
        return True


def intstr_term(n):
    """SMT term for str(n), n a symbolic int: uninterpreted, with the facts the repository relies on instantiated
    per occurrence: injective (pairwise over the occurrences on this path), never empty, no '.', '/' in it, and
    equal to the decimal literal for the small values that occur as constants (-1, 0)."""
    vc = cur()
    n = SInt.of(n)
    vc.ikey(n, 'pack')        # str(n) names a pack: n is an instantiation point of the clauses quantified over pack ids
    c = conc(n)
    if c is not None:
        lit = z3.StringVal(str(c))
        lreg = vc.ghost.setdefault('__intstr_lits__', set())
        if c not in lreg:
            lreg.add(c)
            vc.solver.add(z3.And(STRINT_fn(lit) == c, NAMEKIND_fn(lit) == 1))
        return lit
    t = INTSTR_fn(n.t)
    reg = vc.ghost.setdefault('__intstr_terms__', set())
    if t.get_id() in reg:
        return t
    reg.add(t.get_id())
    vc.ghost.setdefault('__intstr_keep__', []).append(t)
    # injective, through its inverse (one axiom per ground term)
    vc.solver.add(z3.And(STRINT_fn(t) == n.t, NAMEKIND_fn(t) == 1))
    vc.solver.add(z3.Length(t) > 0)
    vc.solver.add(z3.Not(z3.Contains(t, z3.StringVal('.'))))
    vc.solver.add(z3.Not(z3.Contains(t, z3.StringVal('/'))))
    for lit in (-1, 0, 1):
        vc.solver.add((t == z3.StringVal(str(lit))) == (n.t == lit))
    vc.solver.add(z3.PrefixOf(z3.StringVal('-'), t) == (n.t < 0))
    return t


LOCKNAME_fn = z3.Function('lock_name', IntS, StrS)      # f'{n}.lock'
LOCKID_fn = z3.Function('lock_name_id', StrS, IntS)
NAMEKIND_fn = z3.Function('name_kind', StrS, IntS)       # 1: str(int), 2: f'{int}.lock'


def lockname_term(n):
    """f'{n}.lock' as an uninterpreted injective function of n that never yields a plain numeral (facts about
    str(int) + '.lock', part of E-INTSTR; stated through inverses, one axiom per ground term)."""
    vc = cur()
    n = SInt.of(n)
    t = LOCKNAME_fn(n.t)
    reg = vc.ghost.setdefault('__lockname_terms__', set())
    if t.get_id() not in reg:
        reg.add(t.get_id())
        vc.ghost.setdefault('__lockname_keep__', []).append(t)
        vc.solver.add(z3.And(LOCKID_fn(t) == n.t, NAMEKIND_fn(t) == 2))
    return t


def flatten_str(I, x):
    """IntStr / StrCat / str / SStr -> SStr term."""
    if isinstance(x, StrCat) and len(x.parts) == 2 and isinstance(x.parts[0], IntStr) and x.parts[1] == '.lock':
        return SStr(lockname_term(x.parts[0].n))
    if isinstance(x, (str, SStr)):
        return SStr.of(x)
    if isinstance(x, IntStr):
        return SStr(intstr_term(x.n))
    if isinstance(x, StrCat):
        out = None
        for p in x.parts:
            t = flatten_str(I, p)
            out = t if out is None else out + t
        return out if out is not None else SStr.of('')
    raise Unsupported(f'not a string: {x!r}')


def bytes_repeat(I, a, n):
    used('A-ZEROS')
    if isinstance(a, bytes) and a == b'\x00':
        r = SBytes(ZEROS_fn(SInt.of(n).t))
        I.vc.assume(r.length() == smax(SInt.of(n), 0))
        return r
    if isinstance(a, bytes) and not is_sym(n):
        return a * n
    raise Unsupported('bytes repetition')


class RealVal:
    """Result of a true division: an abstract real, only ever compared with a float constant."""

    def __init__(self, num, den):
        self.num, self.den = num, den

    def sym_cmp(self, I, op, other):
        # comparison of an abstract ratio with a threshold: unconstrained boolean (AUTO may answer either way)
        used('A-FLOAT')
        return I.vc.fresh_bool('ratio_cmp')

    def sym_int(self, I):
        # int(a / b): an arbitrary integer (only progress-callback throttling uses it)
        used('A-FLOAT')
        return SInt.fresh('trunc')


class CallbackFn:
    """A progress callback supplied by the caller (A-CB: neither raises nor re-enters the container)."""

    def __init__(self):
        self.calls = 0

    def sym_call(self, I, args, kwargs):
        used('A-CB')
        self.calls += 1
        return None

    def sym_truth(self, vc):
        return True


def real_div(I, a, b):
    if not is_sym(a) and not is_sym(b):
        if b == 0:
            raise_py('ZeroDivisionError')
        return RealVal(a, b)
    bz = (SInt.of(b) == 0)
    if I.vc.branch(bz, label='divzero'):
        raise_py('ZeroDivisionError', origin='true division')
    return RealVal(a, b)


# ----------------------------------------------------------------------------- iteration models
class SetIterModel:
    """for x in S (a set of str): ghost `done` = elements already visited, in arbitrary order."""

    def __init__(self, s):
        self.s = s

    def start(self, vc):
        return {'done': SSet.empty(), 'all': self.s}

    def havoc(self, vc, ghost):
        d = SSet.fresh('done')
        vc.assume(d.subset(self.s))
        return {'done': d, 'all': self.s}

    def step(self, vc, ghost):
        x = vc.fresh_key('x')
        vc.assume(self.s.has(x))
        vc.assume(b_not(ghost['done'].has(x)))
        return x, {'done': ghost['done'].add(x), 'all': self.s}

    def finish(self, vc, ghost):
        vc.assume(ghost['done'] == self.s)

    def some_element(self, vc, ghost):
        x = vc.fresh_key('last')
        vc.assume(self.s.has(x))
        return x

    def assume_empty(self, vc):
        vc.assume(self.s == SSet.empty())


class ElemsIterModel:
    """for x in L, L an abstract list described by the set of its elements: elements come in any order, possibly
    repeated, and all of them are visited.  ghost `done` = elements visited so far."""

    def __init__(self, s, distinct=None):
        self.s = s
        self.distinct = distinct        # optional SBool ghost of the list: no element occurs twice

    def start(self, vc):
        return {'done': SSet.empty(), 'all': self.s}

    def havoc(self, vc, ghost):
        d = SSet.fresh('done')
        vc.assume(d.subset(self.s))
        return {'done': d, 'all': self.s}

    def step(self, vc, ghost):
        x = vc.fresh_key('x')
        vc.assume(self.s.has(x))
        if self.distinct is not None:
            vc.assume(implies(SBool.of(self.distinct), b_not(ghost['done'].has(x))))
        return x, {'done': ghost['done'].add(x), 'all': self.s}

    def finish(self, vc, ghost):
        vc.assume(ghost['done'] == self.s)

    def some_element(self, vc, ghost):
        x = vc.fresh_key('last')
        vc.assume(self.s.has(x))
        return x

    def assume_empty(self, vc):
        vc.assume(self.s == SSet.empty())


class AbsSeq:
    """Abstract finite sequence: length n (SInt) and an element function at(i)."""

    def __init__(self, n, at, name='seq'):
        self.n = SInt.of(n)
        self.at = at
        self.name = name

    def sym_len(self, I):
        return self.n

    def sym_truth(self, vc):
        return self.n > 0

    def iter_model(self, I):
        return SeqIterModel(self)

    def sym_getitem(self, I, idx):
        i = SInt.of(idx)
        c = conc(i)
        if c is not None and c < 0:
            if I.vc.branch(self.n + c >= 0, label='seqidx'):
                return self.at(self.n + c)
            raise_py('IndexError')
        if I.vc.branch(b_and(i >= 0, i < self.n), label='seqidx'):
            return self.at(i)
        raise_py('IndexError')


class SeqIterModel:
    def __init__(self, seq):
        self.seq = seq

    def start(self, vc):
        return {'i': 0, 'seq': self.seq}

    def havoc(self, vc, ghost):
        i = SInt.fresh('idx')
        vc.assume(b_and(i >= 0, i <= self.seq.n))
        return {'i': i, 'seq': self.seq}

    def step(self, vc, ghost):
        i = SInt.of(ghost['i'])
        vc.assume(i < self.seq.n)
        return self.seq.at(i), {'i': i + 1, 'seq': self.seq}

    def finish(self, vc, ghost):
        vc.assume(SInt.of(ghost['i']) == self.seq.n)


class AbsIter:
    """Iterator over an AbsSeq with a cursor: next() returns element `pos` or raises StopIteration."""

    def __init__(self, seq, pos=0):
        self.seq = seq
        self.pos = SInt.of(pos)

    def iter_model(self, I):
        raise Unsupported('for-loop over a partially consumed iterator')


def iter_(I, x):
    if isinstance(x, AbsIter):
        return x
    if isinstance(x, AbsSeq):
        return AbsIter(x)
    if isinstance(x, GenObj):
        return x
    if isinstance(x, OneShot):
        return x
    items = I.concrete_items(x)
    if items is not None:
        return ConcIter(list(items))
    raise Unsupported(f'iter() of {x!r}')


class ConcIter:
    def __init__(self, items):
        self.items = items
        self.pos = 0

    def concrete_items(self):
        r = self.items[self.pos:]
        self.pos = len(self.items)
        return r


class OneShot:
    """An iterable that can be traversed once (generator passed by a caller): ghost items + consumed flag."""

    def __init__(self, items_set):
        self.items = items_set      # SSet
        self.consumed = False


def next_(I, it, *default):
    if isinstance(it, AbsIter):
        if I.vc.branch(it.pos < it.seq.n, label='next'):
            v = it.seq.at(it.pos)
            it.pos = it.pos + 1
            return v
        if default:
            return default[0]
        raise_py('StopIteration', origin='next')
    if isinstance(it, ConcIter):
        if it.pos < len(it.items):
            it.pos += 1
            return it.items[it.pos - 1]
        if default:
            return default[0]
        raise_py('StopIteration', origin='next')
    if isinstance(it, GenObj):
        try:
            return next(it.pygen)
        except StopIteration:
            if default:
                return default[0]
            raise_py('StopIteration', origin='next')
    raise Unsupported(f'next() of {it!r}')


def iter_sentinel(I, fn, sentinel):
    raise Unsupported('two-argument iter()')


def set_card(I, s):
    used('A-CARD')
    c = SInt(z3.Function('card', z3.SetSort(StrS), IntS)(s.t))
    I.vc.assume(c >= 0)
    I.vc.assume((c == 0) == s.is_empty())
    return c


def to_list(I, x):
    if isinstance(x, MSet):
        return MList(None, n=set_card(I, x.s), elems=x.s, distinct=True)
    if isinstance(x, AbsSeq):
        return x
    if isinstance(x, OneShot):
        return oneshot_consume(I, x, 'list')
    raise Unsupported(f'list() of {x!r}')


def to_tuple(I, x):
    raise Unsupported(f'tuple() of {x!r}')


def to_set(I, x):
    if isinstance(x, MList) and x.items is None and 'elems' in x.g:
        return MSet(x.g['elems'])
    if isinstance(x, OneShot):
        return MSet(oneshot_consume(I, x, 'set'))
    if hasattr(x, 'sym_toset'):
        return x.sym_toset(I)
    raise Unsupported(f'set() of {x!r}')


def oneshot_consume(I, x, how):
    if x.consumed:
        r = SSet.empty()
    else:
        r = x.items
    x.consumed = True
    if how == 'set':
        return r
    return MList(None, n=set_card(I, r), elems=r)


def to_dict(I, x):
    raise Unsupported(f'dict() of {x!r}')


def sorted_(I, x, key):
    if key is not None:
        raise Unsupported('sorted with key')
    if isinstance(x, MSet):
        return SortedKeys(x.s)
    if isinstance(x, MList) and x.items is None and 'elems' in x.g:
        return SortedKeys(x.g['elems'])
    if isinstance(x, OneShot):
        return SortedKeys(oneshot_consume(I, x, 'set'))
    items = I.concrete_items(x)
    if items is not None and all(not is_sym(i) for i in items):
        return MList(sorted(items))
    if hasattr(x, 'sym_sorted'):
        return x.sym_sorted(I)
    raise Unsupported(f'sorted() of {x!r}')


def _elems_of_list(I, l):
    if isinstance(l, MList) and l.items is not None:
        s = SSet.empty()
        for x in l.items:
            s = s.add(x)
        return s, SInt.of(len(l.items))
    if isinstance(l, MList) and 'elems' in l.g:
        return l.g['elems'], SInt.of(l.g['n']) if 'n' in l.g else SInt.fresh('n')
    raise Unsupported(f'list concatenation with {l!r}')


def list_concat(I, a, b, inplace):
    """a + b / a += b where at least one side is an abstract list of str described by its element set."""
    ea, na = _elems_of_list(I, a)
    eb, nb = _elems_of_list(I, b)
    g = {'elems': ea.union(eb), 'n': na + nb}
    if inplace:
        a.items = None
        a.g = g
        return a
    return MList(None, **g)


class SortedKeys:
    """sorted(S) for a set of str: the strictly increasing enumeration of S."""

    def __init__(self, s):
        self.s = s


def zip_(I, xs):
    raise Unsupported('zip over abstract iterables')


def zip_star(I, x):
    raise Unsupported('zip(*x) over abstract iterable')


def sum_(I, x, start):
    raise Unsupported('sum over abstract iterable')


# ----------------------------------------------------------------------------- method tables for builtin types
class Method:
    def __init__(self, fn, *bound):
        self.fn = fn
        self.bound = bound

    def sym_call(self, I, args, kwargs):
        return self.fn(I, *self.bound, *args, **kwargs)


class OMethod:
    """Bound method of an environment object: fn(obj, I, *args)."""

    def __init__(self, fn, obj):
        self.fn = fn
        self.obj = obj

    def sym_call(self, I, args, kwargs):
        return self.fn(self.obj, I, *args, **kwargs)


def method_of(I, obj, name):
    if isinstance(obj, MList):
        f = _LIST_METHODS.get(name)
        if f:
            return Method(f, obj)
    if isinstance(obj, MSet):
        f = _SET_METHODS.get(name)
        if f:
            return Method(f, obj)
    if isinstance(obj, MDict):
        f = _DICT_METHODS.get(name)
        if f:
            return Method(f, obj)
    if isinstance(obj, (bytes, SBytes)):
        f = _BYTES_METHODS.get(name)
        if f:
            return Method(f, obj)
    if isinstance(obj, (str, SStr)):
        f = _STR_METHODS.get(name)
        if f:
            return Method(f, obj)
    if isinstance(obj, tuple):
        if name == 'count' or name == 'index':
            raise Unsupported('tuple method')
    return None


def _list_append(I, l, x):
    if l.items is not None:
        l.items.append(x)
        return None
    g = l.g
    if 'joined' in g:
        g['joined'] = _cat(SBytes, g['joined'], x)
    if 'elems' in g:
        if 'distinct' in g:
            # ghost: "no element occurs twice" stays true only if the new element was not in the list
            g['distinct'] = b_and(SBool.of(g['distinct']), b_not(g['elems'].has(x)))
        g['elems'] = g['elems'].add(x)
    if 'n' in g:
        g['n'] = SInt.of(g['n']) + 1
    if 'on_append' in g:
        g['on_append'](I, l, x)
    return None


def _list_pop(I, l, *idx):
    if l.items is not None:
        if not l.items:
            raise_py('IndexError', 'pop from empty list')
        if idx:
            return l.items.pop(conc(idx[0]))
        return l.items.pop()
    if 'pop' in l.g:
        return l.g['pop'](I, l)
    raise Unsupported('pop from abstract list')


def _list_sort(I, l, key=None, reverse=False):
    if l.items is not None and len(l.items) <= 1:
        return None
    if 'sort' in l.g:
        return l.g['sort'](I, l, key)
    raise Unsupported('list.sort on symbolic list')


def _list_extend(I, l, xs):
    items = I.concrete_items(xs)
    if l.items is not None and items is not None:
        l.items.extend(items)
        return None
    raise Unsupported('extend abstract list')


def _list_copy(I, l):
    if l.items is not None:
        return MList(list(l.items))
    return MList(None, **dict(l.g))


_LIST_METHODS = {'append': _list_append, 'pop': _list_pop, 'sort': _list_sort, 'extend': _list_extend, 'copy': _list_copy}


def _as_sset(I, xs):
    if isinstance(xs, MSet):
        return xs.s
    if isinstance(xs, SSet):
        return xs
    if isinstance(xs, MList) and xs.items is None and 'elems' in xs.g:
        return xs.g['elems']
    if isinstance(xs, SortedKeys):
        return xs.s
    items = I.concrete_items(xs)
    if items is not None:
        s = SSet.empty()
        for e in items:
            s = s.add(e)
        return s
    if hasattr(xs, 'sym_toset'):
        return xs.sym_toset(I).s
    raise Unsupported(f'set operation with {xs!r}')


def _set_add(I, s, x):
    s.s = s.s.add(x)


def _set_update(I, s, xs):
    s.s = s.s.union(_as_sset(I, xs))


def _set_difference(I, s, xs):
    return MSet(s.s.diff(_as_sset(I, xs)))


def _set_difference_update(I, s, xs):
    s.s = s.s.diff(_as_sset(I, xs))


def _set_union(I, s, xs):
    return MSet(s.s.union(_as_sset(I, xs)))


def _set_copy(I, s):
    return MSet(s.s)


def _set_pop(I, s):
    vc = I.vc
    if vc.branch(s.s.is_empty(), label='setpop'):
        raise_py('KeyError', 'pop from an empty set')
    x = vc.fresh_key('popped')
    vc.assume(s.s.has(x))
    s.s = s.s.remove(x)
    return x


_SET_METHODS = {'add': _set_add, 'update': _set_update, 'difference': _set_difference,
                'difference_update': _set_difference_update, 'union': _set_union, 'copy': _set_copy, 'pop': _set_pop}


def _dict_items(I, d):
    return MList([(k, v) for k, v in d.pairs])


def _dict_values(I, d):
    return MList([v for _, v in d.pairs])


def _dict_keys(I, d):
    return MList([k for k, _ in d.pairs])


def _dict_copy(I, d):
    return MDict(list(d.pairs))


def _dict_get(I, d, k, default=None):
    for kk, v in d.pairs:
        eq = I.equals(kk, k)
        if eq is True:
            return v
        if eq is False:
            continue
        if I.vc.branch(eq, label='dictget'):
            return v
    return default


def _dict_update(I, d, other=None, **kw):
    """dict.update with concrete keys: existing keys are rebound, new ones appended."""
    pairs = list(other.pairs) if isinstance(other, MDict) else []
    if other is not None and not isinstance(other, MDict):
        raise Unsupported('dict.update with a non-dict argument')
    pairs += list(kw.items())
    for k, v in pairs:
        ck = conc(k)
        if ck is None:
            raise Unsupported('dict.update with a symbolic key')
        for i, (k0, _) in enumerate(d.pairs):
            if conc(k0) == ck:
                d.pairs[i] = (k0, v)
                break
        else:
            d.pairs.append((k, v))
    return None


_DICT_METHODS = {'items': _dict_items, 'values': _dict_values, 'keys': _dict_keys, 'copy': _dict_copy, 'get': _dict_get,
                 'update': _dict_update}


def _bytes_join(I, sep, xs):
    if isinstance(xs, MList) and xs.items is None and 'joined' in xs.g:
        if sep != b'':
            raise Unsupported('join with separator on abstract list')
        return xs.g['joined']
    items = I.concrete_items(xs)
    if items is None:
        raise Unsupported('bytes.join of abstract list')
    out = b''
    first = True
    for x in items:
        if not first:
            out = _cat(SBytes, out, sep)
        out = _cat(SBytes, out, x)
        first = False
    return out


def _cat(cls, a, b):
    if is_sym(a) or is_sym(b):
        return cls.of(a) + cls.of(b)
    return a + b


_BYTES_METHODS = {'join': _bytes_join}


def _str_partition(I, s, sep):
    if not is_sym(s) and not is_sym(sep):
        return s.partition(sep)
    raise Unsupported('partition on symbolic string')


def _str_startswith(I, s, p):
    if isinstance(p, StrCat):
        raise Unsupported('startswith with structured prefix')
    if not is_sym(s) and not is_sym(p):
        return s.startswith(p)
    return SStr.of(s).startswith(p)


def _str_join(I, sep, xs):
    items = I.concrete_items(xs)
    if items is None:
        raise Unsupported('str.join over abstract')
    out = ''
    for i, x in enumerate(items):
        if i:
            out = _cat(SStr, out, sep)
        out = _cat(SStr, out, x)
    return out


def _str_copy(I, s):
    return s


_STR_METHODS = {'partition': _str_partition, 'startswith': _str_startswith, 'join': _str_join}


# ----------------------------------------------------------------------------- the ghost world
class World:
    """Kernel-visible state (DESIGN.md 2.6). All components are immutable SMT terms held in mutable fields."""

    def __init__(self, vc, name='W'):
        A = lambda n, d, r: z3.Const(fresh_name(f'{name}.{n}'), z3.ArraySort(d, r))
        self.idata = A('idata', IntS, StrS)        # inode -> content
        self.isync = A('isync', IntS, IntS)        # inode -> length of the prefix on stable storage
        self.next_ino = SInt.fresh(f'{name}.next_ino')
        vc.assume(self.next_ino > 0)
        self.open_fds = []                         # descriptors opened by this process (concrete list of FdRec)
        self.fd_counter = 100
        self.log = []                              # effect log (concrete tags with symbolic payloads)

    def _live(self):
        # A universally quantified hypothesis is instantiated LATER than it is stated: its body must talk about the state
        # it was stated in (a frozen view, `snap(world)`), never about the live world at instantiation time.
        vc = cur()
        if vc is not None and getattr(vc, '_instantiating', False):
            raise CheckerError('a quantified clause reads the live world while being instantiated (use a frozen view)')

    def data(self, ino):
        self._live()
        return SBytes(z3.simplify(z3.Select(self.idata, SInt.of(ino).t)))

    def set_data(self, ino, b):
        self.idata = z3.Store(self.idata, SInt.of(ino).t, SBytes.of(b).t)

    def synced(self, ino):
        self._live()
        return SInt(z3.Select(self.isync, SInt.of(ino).t))

    def set_synced(self, ino, n):
        self.isync = z3.Store(self.isync, SInt.of(ino).t, SInt.of(n).t)

    def new_inode(self, vc, content=b''):
        ino = self.next_ino
        self.next_ino = ino + 1
        self.set_data(ino, content)
        self.set_synced(ino, 0)
        return ino

    def new_fd(self, what, path=None):
        self.fd_counter += 1
        rec = FdRec(self.fd_counter, what, path)
        self.open_fds.append(rec)
        return rec

    def close_fd(self, rec):
        if rec in self.open_fds:
            self.open_fds.remove(rec)
        else:
            raise_py('OSError', 'EBADF', origin='close')


class FdRec:
    def __init__(self, num, what, path):
        self.num = num
        self.what = what       # 'file' | 'dir' | 'dup'
        self.path = path
        self.ino = None


def effect(I, tag, **payload):
    """Announce a kernel-visible effect: units in effect-point mode hang obligations here."""
    vc = I.vc
    w = payload.get('world')
    vc.effect_log.append((tag, payload))
    hook = vc.env_hook
    if hook is not None:
        hook(I, tag, payload)


def fault(I, tag):
    """In fault mode every environment call may fail once with OSError."""
    vc = I.vc
    fm = vc.fault_mode
    if not fm or vc.ghost.get('faulted'):
        return False
    if fm is not True and tag.split(':')[0] not in fm:
        return False
    if vc.nondet_bool(label=f'fault@{tag}'):
        vc.ghost['faulted'] = tag
        return True
    return False


# ----------------------------------------------------------------------------- files
class FileObj:
    """CPython buffered binary file object over one inode of the world (E-FILE-R / E-FILE-A / E-FILE-W)."""

    def __init__(self, world, ino, mode, path=None, at_end=False):
        self.world = world
        self.ino = SInt.of(ino)
        self.mode = mode
        self.name_path = path
        self.closed = False
        self.buf = b''                 # pending user-space bytes (write modes)
        self.fdrec = world.new_fd('file', path)
        self.fdrec.ino = self.ino
        self.kpos = world.data(ino).length() if at_end else SInt.of(0)

    # -- attribute protocol
    def sym_getattr(self, I, name):
        if name == 'mode':
            return self.mode
        if name == 'closed':
            return self.closed
        if name == 'name':
            return self.name_path
        if name in ('read', 'write', 'seek', 'tell', 'flush', 'close', 'fileno', 'truncate', 'seekable', 'readable',
                    '__enter__', '__exit__'):
            return OMethod(getattr(FileObj, 'm_' + name.strip('_')), self)
        raise_py('AttributeError', name, origin='file object')

    def sym_hasattr(self, I, name):
        return name in ('mode', 'closed', 'name', 'read', 'write', 'seek', 'tell', 'flush', 'close', 'fileno', 'truncate')

    def sym_enter(self, I):
        return self

    def sym_exit(self, I, exc):
        self.m_close(I)
        return False

    def sym_truth(self, vc):
        return True

    def _chk_open(self):
        if self.closed:
            raise_py('ValueError', 'I/O operation on closed file.', origin='file')

    def content(self):
        return self.world.data(self.ino)

    def logical(self):
        """Kernel content plus pending buffer (what the writer believes it has written)."""
        return _cat(SBytes, self.content(), self.buf)

    # -- reading
    def m_read(self, I, size=-1):
        used('E-FILE-R')
        self._chk_open()
        if 'r' not in self.mode:
            raise_py('OSError', 'not readable', origin='read')
        if fault(I, 'read'):
            raise_py('OSError', 'EIO', origin='read')
        data = self.content()
        if size is None or (not is_sym(size) and size < 0) or (is_sym(size) and I.vc.branch(SInt.of(size) < 0, label='readneg')):
            r = data.slice(self.kpos, None)
        elif I.vc.profile.get('clamped_reads'):
            # same value, written with the clamped count (a theorem of substr for a cursor >= 0); lets loop
            # invariants of the form `consumed == content[:cursor]` match syntactically
            I.require_internal('cursor_nonneg', self.kpos >= 0)
            n = SInt.of(size)
            if I.vc.branch(self.kpos + n <= data.length(), label='read:full'):
                got = n
            elif I.vc.branch(self.kpos <= data.length(), label='read:short'):
                got = data.length() - self.kpos
            else:
                return b''
            r = data.slice(self.kpos, self.kpos + got)
            I.vc.assume(r.length() == got)
            self.kpos = self.kpos + got
            return r
        else:
            r = data.slice(self.kpos, self.kpos + SInt.of(size))
        # a cursor beyond EOF reads nothing; a negative cursor cannot exist (seek rejects it)
        self.kpos = self.kpos + r.length()
        return r

    def m_seek(self, I, target, whence=0):
        used('E-FILE-R')
        self._chk_open()
        vc = I.vc
        w = conc(whence)
        if w is None:
            raise Unsupported('symbolic whence on a raw file')
        if 'r' not in self.mode:
            self._flush(I, 'seek')
        t = SInt.of(target)
        if w == 0:
            new = t
        elif w == 1:
            new = self.kpos + slen(self.buf) + t if 'r' not in self.mode else self.kpos + t
        elif w == 2:
            new = self.content().length() + t
        else:
            raise_py('ValueError', 'invalid whence', origin='seek')
        if vc.branch(new < 0, label='seekneg'):
            raise_py('ValueError' if w == 0 else 'OSError', 'negative seek position', origin='seek')
        self.kpos = new
        return new

    def m_tell(self, I):
        self._chk_open()
        if 'r' in self.mode:
            return self.kpos
        used('E-FILE-A')
        return self.kpos + slen(self.buf)

    # -- writing
    def m_write(self, I, b):
        used('E-FILE-A')
        self._chk_open()
        if 'r' in self.mode:
            raise_py('OSError', 'not writable', origin='write')
        vc = I.vc
        if fault(I, 'write'):
            # a failed write may already have pushed a prefix of (buffer + data) to the kernel
            self._partial_flush(I, None, keep_rest=False, parts=(self.buf, b))
            raise_py('OSError', 'ENOSPC', origin='write')
        # any prefix of (buffer + data) may be flushed by the buffering layer
        self._partial_flush(I, None, keep_rest=True, parts=(self.buf, b))
        return slen(b)

    def _partial_flush(self, I, allbytes, keep_rest, parts=None):
        """The buffering layer pushes an arbitrary prefix of (pending buffer ++ new data) to the kernel.
        `parts` = (buffer, new data): the boundary is then case-split (inside the old buffer / inside the new data) so
        that no extraction from a concatenation is ever built."""
        vc = I.vc
        old = self.content()
        if parts is not None:
            from .values import _parts
            plist = [SBytes(p) for x in parts for p in _parts(SBytes.of(x).t)
                     if not (z3.is_string_value(p) and p.as_string() == '')]
            if not plist:
                plist = [SBytes.of(b'')]
            i = vc.choose(len(plist), label='flush:boundary_in_part') if len(plist) > 1 else 0
            jj = SInt.fresh('flushed')
            vc.assume(b_and(jj >= 0, jj <= plist[i].length()))
            pushed = SBytes.of(b'')
            for q in plist[:i]:
                pushed = pushed + q
            pushed = pushed + plist[i].slice(0, jj)
            rest = plist[i].slice(jj, None)
            for q in plist[i + 1:]:
                rest = rest + q
            j = pushed.length()
        else:
            allb = SBytes.of(allbytes)
            j = SInt.fresh('flushed')
            vc.assume(b_and(j >= 0, j <= allb.length()))
            pushed, rest = allb.slice(0, j), allb.slice(j, None)
        if 'a' not in self.mode:
            # 'wb'/'xb' without O_APPEND: bytes land at the kernel cursor; only the at-EOF case is encoded
            I.require_internal('wb_write_at_eof', self.kpos == old.length())
        new = old + pushed
        self.world.set_data(self.ino, new)
        self.kpos = ite(j > 0, new.length(), self.kpos)
        self.buf = rest if keep_rest else b''
        effect(I, 'file_write', file=self)

    def _flush(self, I, why):
        used('E-FILE-A')
        if 'r' in self.mode:
            return
        buf = SBytes.of(self.buf)
        old = self.content()
        if 'a' not in self.mode:
            I.require_internal('wb_write_at_eof', b_or(buf.length() == 0, self.kpos == old.length()))
        new = old + buf
        self.world.set_data(self.ino, new)
        self.kpos = ite(buf.length() > 0, new.length(), self.kpos)
        self.buf = b''
        effect(I, 'file_flush', file=self)

    def m_flush(self, I):
        self._chk_open()
        if fault(I, 'flush'):
            self._partial_flush(I, self.buf, keep_rest=True)
            raise_py('OSError', 'EIO', origin='flush')
        self._flush(I, 'flush')

    def m_truncate(self, I, size=None):
        used('E-FILE-A')
        self._chk_open()
        if 'r' in self.mode:
            raise_py('OSError', 'not writable', origin='truncate')
        if size is not None:
            raise Unsupported('truncate(size)')
        if fault(I, 'truncate'):
            raise_py('OSError', 'EIO', origin='truncate')
        self._flush(I, 'truncate')
        old = self.content()
        cut = self.kpos
        vc = I.vc
        # case split (keeps every content term an extraction of a variable): at the end / inside / beyond the end
        if vc.branch(cut == old.length(), label='truncate:at_end'):
            effect(I, 'file_truncate', file=self, cut=cut, old=old)
            return cut
        if vc.branch(cut < old.length(), label='truncate:shrinks'):
            new = old.slice(0, cut)
        else:
            ext = SBytes.fresh('zerofill')
            vc.assume(ext.length() == cut - old.length())
            new = old + ext
        self.world.set_data(self.ino, new)
        # data beyond the cut is gone; the synced watermark cannot exceed the new length
        self.world.set_synced(self.ino, smin(self.world.synced(self.ino), cut))
        effect(I, 'file_truncate', file=self, cut=cut, old=old)
        return cut

    def m_close(self, I):
        if self.closed:
            return None
        if 'r' not in self.mode:
            if fault(I, 'close'):
                self._partial_flush(I, self.buf, keep_rest=False)
                self.closed = True
                self.world.close_fd(self.fdrec)
                raise_py('OSError', 'EIO', origin='close')
            self._flush(I, 'close')
        self.closed = True
        self.world.close_fd(self.fdrec)
        effect(I, 'file_close', file=self)
        return None

    def m_fileno(self, I):
        self._chk_open()
        return self.fdrec

    def m_seekable(self, I):
        return True

    def m_readable(self, I):
        return 'r' in self.mode

    def m_enter(self, I):
        return self

    def m_exit(self, I, *a):
        self.m_close(I)
        return None


class AbsStream:
    """A caller-supplied readable (and possibly seekable) binary stream: ghost (content, pos).
    read(n>0) returns a NON-EMPTY prefix of the rest of length <= n unless at the end (short reads allowed)."""

    def __init__(self, content, pos=0, mode='rb', short_reads=True, seekable=True, name='stream'):
        self.content = SBytes.of(content)
        self.pos = SInt.of(pos)
        self.mode = mode
        self.closed = False
        self.short_reads = short_reads
        self.seekable = seekable
        self.name = name
        self.reads = 0
        self.max_read = 0      # ghost: largest count ever requested (chunk-bound obligations)

    def sym_getattr(self, I, name):
        if name == 'mode':
            return self.mode
        if name == 'closed':
            return self.closed
        if name in ('read', 'seek', 'tell', 'seekable', 'close'):
            return OMethod(getattr(AbsStream, 'm_' + name), self)
        raise_py('AttributeError', name, origin='stream')

    def sym_hasattr(self, I, name):
        return name in ('mode', 'closed', 'read', 'seek', 'tell')

    def sym_truth(self, vc):
        return True

    def sym_enter(self, I):
        return self

    def sym_exit(self, I, exc):
        return False

    def rest(self):
        return self.content.slice(self.pos, None)

    def m_read(self, I, size=-1):
        vc = I.vc
        if fault(I, 'read'):
            raise_py('OSError', 'EIO', origin='read')
        rest = self.rest()
        if size is None or (not is_sym(size) and size < 0) or (is_sym(size) and vc.branch(SInt.of(size) < 0, label='readneg')):
            r = rest
        else:
            n = SInt.of(size)
            self.max_read = smax(self.max_read, n)
            if self.short_reads:
                m = SInt.fresh('got')
                vc.assume(b_and(m >= 0, m <= n, m <= rest.length()))
                vc.assume(implies(b_and(n > 0, rest.length() > 0), m > 0))
                r = rest.slice(0, m)
                # len(rest[:m]) == m for 0 <= m <= len(rest) (theorem of substr): advance by m itself
                self.pos = self.pos + m
                self.reads += 1
                return r
            else:
                r = rest.slice(0, n)
        self.pos = self.pos + r.length()
        self.reads += 1
        return r

    def m_seek(self, I, target, whence=0):
        if not self.seekable:
            raise_py('OSError', 'not seekable', origin='seek')
        w = conc(whence)
        t = SInt.of(target)
        if w == 0:
            new = t
        elif w == 1:
            new = self.pos + t
        elif w == 2:
            new = self.content.length() + t
        else:
            raise Unsupported('whence')
        if I.vc.branch(new < 0, label='seekneg'):
            raise_py('ValueError', 'negative seek', origin='seek')
        self.pos = new
        return new

    def m_tell(self, I):
        return self.pos

    def m_seekable(self, I):
        return self.seekable

    def m_close(self, I):
        self.closed = True


# ----------------------------------------------------------------------------- hashlib / zlib
class HashCtor:
    def __init__(self, name):
        self.name = name

    def sym_call(self, I, args, kwargs):
        h = Hasher(self.name)
        if args:
            h.m_update(I, args[0])
        return h

    def sym_eq(self, I, o):
        return isinstance(o, HashCtor) and o.name == self.name


class Hasher:
    def __init__(self, name):
        self.name = name
        self.fed = b''

    def sym_getattr(self, I, name):
        if name in ('update', 'hexdigest'):
            return OMethod(getattr(Hasher, 'm_' + name), self)
        raise_py('AttributeError', name)

    def m_update(self, I, b):
        used('E-HASH')
        self.fed = _cat(SBytes, self.fed, b)

    def m_hexdigest(self, I):
        return H(self.name, self.fed)


class CompObj:
    """zlib.compressobj (E-ZLIB): the concatenation of all outputs plus flush() is a valid stream inflating to the input."""

    def __init__(self, level):
        self.level = level
        self.fed = b''
        self.out = b''
        self.flushed = False

    def sym_getattr(self, I, name):
        if name in ('compress', 'flush'):
            return OMethod(getattr(CompObj, 'm_' + name), self)
        raise_py('AttributeError', name)

    def m_compress(self, I, chunk):
        used('E-ZLIB')
        if self.flushed:
            raise_py('ValueError', 'compress after flush')
        self.fed = _cat(SBytes, self.fed, chunk)
        o = SBytes.fresh('zout')
        self.out = _cat(SBytes, self.out, o)
        return o

    def m_flush(self, I):
        used('E-ZLIB')
        o = SBytes.fresh('zfin')
        self.out = _cat(SBytes, self.out, o)
        self.flushed = True
        I.vc.assume(zvalid(self.out))
        I.vc.assume(dec(True, self.out) == SBytes.of(self.fed))
        I.vc.assume(SBytes.of(self.out).length() > 0)
        return o


class DecompObj:
    """zlib.decompressobj (E-ZLIB). Ghost: Z = the complete stream this object is being fed (any string),
    inp = input consumed so far, out = output produced so far."""

    def __init__(self, I):
        self.Z = SBytes.fresh('Z')
        self.inp = b''
        self.out = b''
        self.unconsumed_tail = b''
        self.eof = False

    def sym_getattr(self, I, name):
        if name == 'unconsumed_tail':
            return self.unconsumed_tail
        if name == 'eof':
            return self.eof
        if name == 'decompress':
            return OMethod(DecompObj.m_decompress, self)
        raise_py('AttributeError', name)

    def on_track(self):
        """The bytes consumed so far are a prefix of a valid stream Z."""
        return b_and(zvalid(self.Z), SBytes.of(self.Z).startswith(self.inp))

    def m_decompress(self, I, chunk, max_length=0):
        used('E-ZLIB')
        vc = I.vc
        c = SBytes.of(chunk)
        supplied = SBytes.of(_cat(SBytes, self.inp, c))
        Z = SBytes.of(self.Z)
        D = dec(True, Z)
        ml = SInt.of(max_length)
        # ghost (C18): has any call asked for unbounded output?
        self.unbounded_calls = b_or(SBool.of(getattr(self, 'unbounded_calls', False)), ml <= 0)
        n1 = SInt.fresh('consumed')
        vc.assume(b_and(n1 >= 0, n1 <= c.length()))
        new_inp = _cat(SBytes, self.inp, c.slice(0, n1))
        tail = c.slice(n1, None)
        eof = vc.fresh_bool('eof')
        from .values import _prove, _is_extract
        st = supplied.t
        on_track = (_is_extract(st) and st.children()[0].eq(Z.t) and _prove(st.children()[1] == 0)) or \
            _prove(Z.startswith(supplied).t)
        if on_track and _prove(zvalid(Z).t):
            # the bytes supplied so far are a prefix of a valid stream: never raises, and the output is
            # the next k bytes of the inflation (stated structurally, as a slice of dec(Z))
            out = SBytes.of(self.out)
            olen = out.length()
            k = SInt.fresh('produced')
            vc.assume(b_and(k >= 0, olen + k <= D.length(), implies(ml > 0, k <= ml)))
            r = D.slice(olen, olen + k)
            new_out = out + r
            vc.assume(eof == (SBytes.of(new_inp).length() == Z.length()))
            vc.assume(implies(eof, olen + k == D.length()))
            vc.assume(implies(ml <= 0, tail.length() == 0))
            vc.assume(implies(b_and(ml > 0, tail.length() > 0), k == ml))
        else:
            good = b_and(zvalid(Z), Z.startswith(supplied))
            # corrupt input may raise (never for a prefix of a valid stream)
            if vc.nondet_bool(label='zlib_error'):
                vc.assume(b_not(good))
                raise_py('zlib.error', origin='decompress')
            r = SBytes.fresh('inflated')
            vc.assume(implies(ml > 0, r.length() <= ml))
            new_out = _cat(SBytes, self.out, r)
            vc.assume(implies(good, b_and(
                D.startswith(new_out),
                eof == (SBytes.of(new_inp) == Z),
                implies(eof, SBytes.of(new_out) == D),
                implies(ml <= 0, tail.length() == 0),
                # progress: a call that leaves input unconsumed filled its output budget
                implies(b_and(ml > 0, tail.length() > 0), r.length() == ml),
            )))
        vc.assume(implies(SBool.of(self.eof), b_and(r.length() == 0, eof)))
        self.inp, self.out, self.unconsumed_tail, self.eof = new_inp, new_out, tail, eof
        return r


# ----------------------------------------------------------------------------- modules
class ModuleObj:
    def __init__(self, name, attrs):
        self.name = name
        self.attrs = attrs

    def sym_getattr(self, I, name):
        if name in self.attrs:
            return self.attrs[name]
        return Dummy(f'{self.name}.{name}')

    def sym_hasattr(self, I, name):
        return name in self.attrs

    def sym_truth(self, vc):
        return True

    def __repr__(self):
        return f'<envmodule {self.name}>'


class UnknownModule:
    def __init__(self, name):
        self.name = name

    def sym_getattr(self, I, name):
        return UnknownModule(f'{self.name}.{name}')

    def sym_hasattr(self, I, name):
        raise Unsupported(f'hasattr on unmodelled module {self.name}')

    def sym_call(self, I, args, kwargs):
        raise Unsupported(f'call of unmodelled library function {self.name}')

    def sym_truth(self, vc):
        return True


def _fn(f):
    class _F:
        def sym_call(self, I, args, kwargs):
            return f(I, *args, **kwargs)

        def __repr__(self):
            return f'<envfn {f.__name__}>'
    return _F()


def os_fsync(I, fd):
    used('E-SYNC')
    if not isinstance(fd, FdRec):
        raise Unsupported('fsync of a non-descriptor')
    if fault(I, 'fsync'):
        raise_py('OSError', 'EIO', origin='fsync')
    w = I.vc.world
    if fd not in w.open_fds:
        raise_py('OSError', 'EBADF', origin='fsync')
    if fd.what in ('file',) and fd.ino is not None:
        w.set_synced(fd.ino, w.data(fd.ino).length())
    effect(I, 'fsync', fd=fd)
    return None


def os_open(I, path, flags, *a):
    used('E-SYNC')
    if fault(I, 'os.open'):
        raise_py('OSError', 'EMFILE', origin='os.open')
    w = I.vc.world
    rec = w.new_fd('dir', path)
    effect(I, 'os.open', fd=rec)
    return rec


def os_close(I, fd):
    used('E-SYNC')
    w = I.vc.world
    if not isinstance(fd, FdRec):
        raise Unsupported('os.close of a non-descriptor')
    w.close_fd(fd)
    effect(I, 'os.close', fd=fd)
    return None


def fcntl_fcntl(I, fd, cmd, *a):
    used('E-SYNC')
    vc = I.vc
    w = vc.world
    c = conc(cmd)
    if c is None:
        raise Unsupported('symbolic fcntl command')
    if c == 0:
        # F_DUPFD on Linux: duplicates the descriptor, syncs nothing
        rec = w.new_fd('dup', getattr(fd, 'path', None))
        rec.ino = getattr(fd, 'ino', None)
        effect(I, 'fcntl_dupfd', fd=rec)
        return rec
    if c == vc.profile.get('F_FULLFSYNC', None) and c:
        if fd.what == 'file' and fd.ino is not None:
            w.set_synced(fd.ino, w.data(fd.ino).length())
        effect(I, 'fsync', fd=fd)
        return 0
    raise Unsupported(f'fcntl command {c}')


def zlib_compressobj(I, level=-1, **kw):
    return CompObj(level)


def zlib_decompressobj(I, *a, **kw):
    return DecompObj(I)


def uuid4(I):
    u = UuidVal(I.vc.fresh_key('uuid'))
    return u


class UuidVal:
    def __init__(self, s):
        self.hex = s

    def sym_getattr(self, I, name):
        if name == 'hex':
            return self.hex
        raise_py('AttributeError', name)


class NamedTupleFactory:
    def sym_call(self, I, args, kwargs):
        from .interp import NamedTupleClass
        name, fields = args
        return NamedTupleClass(name, I.concrete_items(fields))


class DefaultDictFactory:
    def sym_call(self, I, args, kwargs):
        raise Unsupported('defaultdict (needs a unit-level model)')


def import_module(I, name):
    vc = I.vc
    prof = vc.profile
    if name == 'os':
        from . import fsmodel as FS
        return ModuleObj('os', {
            'fsync': _fn(os_fsync), 'open': _fn(os_open), 'close': _fn(os_close), 'name': prof.get('os.name', 'posix'),
            'O_DIRECTORY': 65536, **FS.os_module_attrs(), **vc.os_extra})
    if name == 'pathlib':
        from . import fsmodel as FS
        return ModuleObj('pathlib', {'Path': FS.PathCtor()})
    if name == 'fcntl':
        if prof.get('fcntl', True) is False:
            raise_py('ImportError', 'fcntl')
        attrs = {'fcntl': _fn(fcntl_fcntl)}
        if prof.get('F_FULLFSYNC') is not None:
            attrs['F_FULLFSYNC'] = prof['F_FULLFSYNC']
        return ModuleObj('fcntl', attrs)
    if name == 'hashlib':
        return ModuleObj('hashlib', {'sha1': HashCtor('sha1'), 'sha256': HashCtor('sha256')})
    if name == 'zlib':
        return ModuleObj('zlib', {'compressobj': _fn(zlib_compressobj), 'decompressobj': _fn(zlib_decompressobj),
                                  'error': ExcClass('zlib.error')})
    if name == 'uuid':
        return ModuleObj('uuid', {'uuid4': _fn(uuid4)})
    if name == 'abc':
        return ModuleObj('abc', {'ABC': Dummy('ABC'), 'abstractmethod': Dummy('abstractmethod')})
    if name == 'enum':
        e = RepoClass('Enum', None, [])
        return ModuleObj('enum', {'Enum': e})
    if name == 'collections':
        return ModuleObj('collections', {'namedtuple': NamedTupleFactory(), 'defaultdict': vc.defaultdict_factory or DefaultDictFactory()})
    if name == 'contextlib':
        return ModuleObj('contextlib', {'contextmanager': Dummy('contextmanager')})
    if name == 'dataclasses':
        return ModuleObj('dataclasses', {'dataclass': Dummy('dataclass'), 'asdict': _fn(dc_asdict), 'fields': _fn(dc_fields)})
    if name in vc.extra_modules:
        return vc.extra_modules[name](I)
    from . import sqlmodel as SQL
    sm = SQL.sqlalchemy_modules()
    if name in sm:
        return sm[name](I)
    if name == 'io':
        return ModuleObj('io', {'BytesIO': _fn(lambda I_, content=b'': AbsStream(content, 0, short_reads=False, name='BytesIO'))})
    if name in ('typing', 'collections.abc', 'itertools', 'json', 'shutil', 'logging', 'datetime',
                'random', 'string', 'subprocess', 'shlex', 'sqlite3', 'tempfile', 'sys', 're', 'shutil',
                'sqlalchemy.engine', 'sqlalchemy.orm.session', 'sqlalchemy.sql', 'sqlalchemy.sql.expression',
                'disk_objectstore', 'disk_objectstore.database', 'disk_objectstore.container', 'disk_objectstore.cli'):
        return ModuleObj(name, {})
    # any other module: importable, but nothing in it has a model -- a *call* of one of its functions leaves the subset
    return UnknownModule(name)


def dc_asdict(I, obj):
    if isinstance(obj, PyObj) and getattr(obj.cls, 'is_dataclass', False):
        return MDict([(f, obj.f[f]) for f in obj.cls.ann_fields])
    raise Unsupported('asdict')


def dc_fields(I, cls):
    if isinstance(cls, RepoClass) and getattr(cls, 'is_dataclass', False):
        return MList([FieldVal(f) for f in cls.ann_fields])
    raise Unsupported('dataclasses.fields')


class FieldVal:
    def __init__(self, name):
        self.name = name

    def sym_getattr(self, I, name):
        if name == 'name':
            return self.name
        raise_py('AttributeError', name)


def open_(I, path, mode='r', **kw):
    opener = I.vc.open_hook
    if opener is None:
        from . import fsmodel as FS
        return FS.open_file(I, path, mode, **kw)
    return opener(I, path, mode, **kw)
