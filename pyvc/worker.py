"""python3-vt -m pyvc.worker <contracts-module> <unit-name> : verify one unit, print one JSON line."""
import importlib, json, sys
from .contract import verify_unit


def main():
    mod = importlib.import_module('contracts.' + sys.argv[1])
    contracts = {}
    mods = [mod] + [importlib.import_module('contracts.' + m) for m in getattr(mod, 'DEPENDS', [])]
    for m in mods:
        for u in m.UNITS:
            if not u.mode:
                contracts.setdefault(u.fn, u)
    unit = [u for u in mod.UNITS if u.name == sys.argv[2]][0]
    import os
    r = verify_unit(unit, contracts, timeout_ms=int(os.environ.get('PYVC_TIMEOUT_MS', '10000')))
    obs = []
    for k, ob in sorted(r.obligations.items()):
        obs.append({'name': k, 'status': ob.status, 'paths': ob.paths, 'witnessed': ob.witnessed, 'time': round(ob.time, 3),
                    'sample': ob.sample,
                    'failed': [{'path': f['path'][-12:], 'model': f['model'], 'clause': f['clause'][:1500], 'info': f['info']}
                               for f in ob.failed[:2]],
                    'unknown': [{'reason': f['reason'], 'clause': f['clause'][:300]} for f in ob.unknown[:1]]})
    print('PYVC-RESULT ' + json.dumps({'unit': unit.name, 'status': r.status, 'reason': r.reason, 'stats': dict(r.stats),
                                       'wall': round(r.wall, 2), 'obligations': obs, 'callees': sorted(r.callees),
                                       'env_used': sorted(r.env_used), 'notes': r.notes}, default=str))


if __name__ == '__main__':
    main()
