"""python3-vt -m pyvc.worker <contracts-module> <unit-name> [--par N] : verify one unit, print one JSON line.

With --par N the path tree is explored by N processes sharing work: every job explores at most JOB_PATHS paths below its
prefixes and hands the unexplored prefixes back (DESIGN.md 2.4: paths are independent, obligations are merged by name)."""
import concurrent.futures as cf
import importlib
import json
import os
import sys
import time

from .contract import verify_unit

JOB_PATHS = int(os.environ.get('PYVC_JOB_PATHS', '6'))


def load(modname, unitname):
    mod = importlib.import_module('contracts.' + modname)
    contracts = {}
    mods = [mod] + [importlib.import_module('contracts.' + m) for m in getattr(mod, 'DEPENDS', [])]
    for m in mods:
        for u in m.UNITS:
            if not u.mode:
                contracts.setdefault(u.fn, u)
    unit = [u for u in mod.UNITS if u.name == unitname][0]
    return unit, contracts


def ob_dict(k, ob):
    return {'name': k, 'status': ob.status, 'paths': ob.paths, 'discharged': ob.discharged,
            'witnessed': ob.witnessed or ob.vacuous_paths < ob.paths, 'definitely_witnessed': ob.witnessed,
            'time': round(ob.time, 3), 'sample': ob.sample,
            'failed': [{'path': f['path'][-12:], 'model': f['model'], 'clause': f['clause'][:1500], 'info': f['info']} for f in ob.failed[:2]],
            'unknown': [{'reason': f['reason'], 'clause': f['clause'][:300], 'path': f['path'][-8:]} for f in ob.unknown[:2]]}


def result_dict(unit, r):
    return {'unit': unit.name, 'status': r.status, 'reason': r.reason, 'stats': dict(r.stats), 'wall': round(r.wall, 2),
            'obligations': [ob_dict(k, ob) for k, ob in sorted(r.obligations.items())], 'callees': sorted(r.callees),
            'env_used': sorted(r.env_used), 'notes': r.notes, 'leftover': getattr(r, 'leftover', [])}


def run_job(args):
    modname, unitname, jobs, budget, tmo = args
    unit, contracts = load(modname, unitname)
    r = verify_unit(unit, contracts, timeout_ms=tmo, jobs=jobs, budget=budget)
    return result_dict(unit, r)


def merge(acc, d):
    if acc is None:
        return d
    if d['status'] != 'ok' and acc['status'] == 'ok':
        acc['status'], acc['reason'] = d['status'], d['reason']
    elif d['status'] == 'error' and acc['status'] != 'error':
        acc['status'], acc['reason'] = d['status'], d['reason']
    for k, v in d['stats'].items():
        acc['stats'][k] = acc['stats'].get(k, 0) + v
    obs = {o['name']: o for o in acc['obligations']}
    for o in d['obligations']:
        e = obs.get(o['name'])
        if e is None:
            obs[o['name']] = o
            continue
        e['paths'] += o['paths']
        e['discharged'] += o['discharged']
        e['time'] = round(e['time'] + o['time'], 3)
        e['failed'] = (e['failed'] + o['failed'])[:2]
        e['unknown'] = (e['unknown'] + o['unknown'])[:2]
        e['witnessed'] = e['witnessed'] or o['witnessed']
        e['definitely_witnessed'] = e['definitely_witnessed'] or o['definitely_witnessed']
        e['sample'] = e['sample'] or o['sample']
        e['status'] = 'failed' if e['failed'] else ('unknown' if e['unknown'] else 'discharged')
    acc['obligations'] = [obs[k] for k in sorted(obs)]
    acc['callees'] = sorted(set(acc['callees']) | set(d['callees']))
    acc['env_used'] = sorted(set(acc['env_used']) | set(d['env_used']))
    acc['notes'] = list(dict.fromkeys(acc['notes'] + d['notes']))
    return acc


def _die_with_parent():
    # a pool worker must not outlive the worker that started it (e.g. when the caller's time budget kills that one)
    try:
        import ctypes, signal
        ctypes.CDLL('libc.so.6', use_errno=True).prctl(1, signal.SIGKILL)      # PR_SET_PDEATHSIG
    except Exception:
        pass


def run_parallel(modname, unitname, par, tmo):
    t0 = time.time()
    unit, _ = load(modname, unitname)
    nprof = len(unit.profiles or [unit.profile])
    acc = None
    pending = [[(i, [])] for i in range(nprof)]
    with cf.ProcessPoolExecutor(max_workers=par, initializer=_die_with_parent) as ex:
        futs = set()
        while pending or futs:
            while pending and len(futs) < par * 2:
                jobs = pending.pop()
                futs.add(ex.submit(run_job, (modname, unitname, jobs, JOB_PATHS, tmo)))
            done, futs = cf.wait(futs, return_when=cf.FIRST_COMPLETED)
            for f in done:
                d = f.result()
                left = d.pop('leftover', [])
                acc = merge(acc, d)
                if d['status'] == 'ok':
                    # one prefix per new job keeps the load balanced; deep prefixes first (they are the short jobs)
                    for (pi, p) in left:
                        pending.append([(pi, p)])
    acc['wall'] = round(time.time() - t0, 2)
    if acc['status'] == 'ok' and acc['stats'].get('normal_exits', 0) + acc['stats'].get('exc_exits', 0) == 0:
        acc['status'], acc['reason'] = 'error', 'vacuous: no path reaches an exit of the function (contradictory precondition?)'
    return acc


def main():
    tmo = int(os.environ.get('PYVC_TIMEOUT_MS', '10000'))
    modname, unitname = sys.argv[1], sys.argv[2]
    par = int(sys.argv[sys.argv.index('--par') + 1]) if '--par' in sys.argv else 1
    unit, contracts = load(modname, unitname)
    if par > 1 and getattr(unit, 'parallel', False):
        d = run_parallel(modname, unitname, par, tmo)
    else:
        r = verify_unit(unit, contracts, timeout_ms=tmo)
        d = result_dict(unit, r)
        d.pop('leftover', None)
    print('PYVC-RESULT ' + json.dumps(d, default=str))


if __name__ == '__main__':
    main()
