"""Contracts (sidecars) and the per-unit verification driver.

A *unit* is one real function of /repo under contract in one mode.  The same contract object is used
  - in verify mode: fresh symbolic arguments are built (`make`), `pre` is assumed, the REAL body (AST read
    from /repo at run time) is executed symbolically, `post` / `exc` clauses become proof obligations;
  - in callee mode (`apply`): at a call site in another unit, `pre` clauses become obligations of the
    caller, the frame is havocked (`havoc`) and `post` clauses are assumed; the callee's body is not looked at.
"""
from __future__ import annotations

import inspect
import time
import traceback

import z3

from . import envmodel as EM
from .engine import (CheckerError, Engine, ExcClass, ExcVal, Forall, PathEnd, PyRaise, ReturnSig, cur)
from .interp import Interp, Program
from .values import SBool, SInt, Unsupported, b_and, b_not, conc


KNOWN_DECORATORS = {'property', 'staticmethod', 'classmethod', 'contextmanager', 'overload', 'abc.abstractmethod',
                    'abstractmethod'}


class NS:
    """Plain namespace."""

    def __init__(_ns, **kw):
        _ns.__dict__.update(kw)

    def __repr__(self):
        return f'NS({self.__dict__})'


class Loop:
    def __init__(self, ordinal, inv, havoc=None, keep=(), optional=None, at_exit=None, fingerprint=None):
        self.ordinal = ordinal
        self.inv = inv
        self.havoc = havoc
        self.keep = keep
        self.optional = optional or {}
        self.at_exit = at_exit
        self.fingerprint = fingerprint


class Unit:
    fn = None               # 'utils:PackedObjectReader.seek'
    mode = ''               # '' | 'fault' | 'rely' | 'effects' ...
    props = ()
    inline = ()
    loops = {}
    allowed_exc = ()        # exception class names that may escape
    profile = {}            # platform profile (os.name, F_FULLFSYNC ...)
    profiles = None         # optional list of profiles; the unit is verified under each
    fault_mode = False
    trusted = False         # True: assumed contract (environment-like); never verified, listed in assumptions
    verify_only = False     # True: never used as a callee summary
    is_generator = False
    timeout_ms = None
    note = ''

    @property
    def name(self):
        return self.fn + (('@' + self.mode) if self.mode else '')

    # ---- to be provided by sidecars
    def make(self, vc, I):
        """Verify mode: build the symbolic pre-state; return NS with one attribute per parameter."""
        raise NotImplementedError

    def pre(self, vc, a):
        return ()

    def snapshot(self, vc, a):
        return NS()

    def post(self, vc, a, o, ret):
        return ()

    def exc(self, vc, a, o, e):
        return ()

    def havoc(self, vc, I, a):
        """Callee mode: make everything in the frame arbitrary; return the (fresh) return value."""
        return None

    def exc_cases(self, vc, I, a, o):
        """Callee mode: iterable of (exception class name, condition SBool or None, effect callable or None)."""
        return ()

    def on_path_start(self, vc, I):
        pass

    # ---- generator functions: the consumer takes every item; `on_yield` states what each item must satisfy
    def on_yield(self, vc, a, o, item):
        return ()

    def drive_generator(self, vc, I, a, o, gen):
        n = 0
        while True:
            try:
                item = next(gen.pygen)
            except StopIteration:
                break
            n += 1
            for name, fml in self.on_yield(vc, a, o, item):
                vc.check('yield:' + name, fml)
        return None

    # ---- @contextmanager functions: verified as enter ; (body of the caller: arbitrary, may raise) ; exit
    def enter_post(self, vc, a, o, val):
        return ()

    def during(self, vc, I, a, o, val):
        """What the caller's `with` body may do between enter and exit (default: nothing)."""

    def drive_ctxmgr(self, vc, I, a, o, cm):
        val = I.cm_enter(cm)                       # PyRaise out of the enter part is an exceptional exit of the unit
        for name, fml in self.enter_post(vc, a, o, val):
            vc.check('enter:' + name, fml)
        a.entered = val
        self.during(vc, I, a, o, val)
        how = vc.choose(2, label='with_body')      # 0: body completes, 1: body raises
        a.body_raised = (how == 1)
        if how == 0:
            I.cm_exit(cm, None)
            return val
        e = ExcVal('RuntimeError', (), origin='with-body of the caller')
        e.from_body = True
        if I.cm_exit(cm, e):
            vc.check('exit:exception_of_the_body_not_swallowed', False)
            return val
        raise PyRaise(e)

    # ---- callee mode
    def bind_actual(self, I, f, args, kwargs):
        vars_ = I.bind(f.node.args, f.env, args, kwargs, f.qualname)
        return NS(**vars_)

    def apply(self, I, f, args, kwargs):
        vc = I.vc
        caller = I.call_stack[-1] if I.call_stack else (I.unit.fn if I.unit else '?')
        a = self.bind_actual(I, f, args, kwargs)
        vc.callees_used.add(self.name)
        for name, fml in getattr(self, 'pre_callee', self.pre)(vc, a):
            vc.check(f'{vc.unit}:pre[{self.fn}]:{name}', fml)
        o = getattr(self, 'snapshot_callee', self.snapshot)(vc, a)
        a.o = o
        cases = list(self.exc_cases(vc, I, a, o))
        if cases:
            conds = [None] + [None if c[1] is None else SBool.of(c[1]).t for c in cases]
            k = vc.decide(conds, ['call:normal'] + [f'call:{self.fn}:raises:{c[0]}' for c in cases])
            if k > 0:
                cname, _, eff = cases[k - 1]
                e = ExcVal(cname, (), origin=f'call:{self.fn}')
                if eff is not None:
                    eff(vc, I, a, o)
                for name, fml in self.exc(vc, a, o, e):
                    vc.assume(fml)
                raise PyRaise(e)
        ret = self.havoc(vc, I, a)
        for name, fml in getattr(self, 'post_callee', self.post)(vc, a, o, ret):
            vc.assume(fml)
        vc.ghost.setdefault('$first:' + self.fn, ret)     # ghost: results of callee summaries, for the caller's invariants
        vc.ghost['$last:' + self.fn] = ret
        return ret


class UnitResult:
    def __init__(self, unit):
        self.unit = unit
        self.obligations = {}
        self.status = 'ok'          # ok | undecided | error
        self.reason = ''
        self.stats = {}
        self.callees = set()
        self.env_used = set()
        self.notes = []
        self.wall = 0.0


def params_of(f):
    a = f.node.args
    return [p.arg for p in a.posonlyargs + a.args] + [p.arg for p in a.kwonlyargs]


def verify_unit(unit, contracts, repo=None, timeout_ms=10000, max_paths=4000, jobs=None, budget=None):
    """Symbolically execute the real body of unit.fn under the unit's contract. Returns UnitResult.
    jobs: optional list of (profile index, decision prefix) to explore (default: everything); budget: max number of
    paths per profile in this call; unexplored prefixes are returned in res.leftover."""
    res = UnitResult(unit)
    res.leftover = []
    t0 = time.time()
    profiles = unit.profiles or [unit.profile]
    for pi, prof in enumerate(profiles):
        start = None
        if jobs is not None:
            start = [p for (i, p) in jobs if i == pi]
            if not start:
                continue
        import os as _os
        scale = float(_os.environ.get('PYVC_TIMEOUT_SCALE', '1'))
        vc = Engine(None, timeout_ms=int((unit.timeout_ms or timeout_ms) * scale), max_paths=max_paths, profile=dict(prof))
        vc.unit = unit.name + (f'[{prof["name"]}]' if prof.get('name') else '')
        vc.env_used = set()
        vc.callees_used = set()
        vc.effect_log = []
        vc.fault_mode = unit.fault_mode
        vc.world = None
        vc.open_hook = None
        vc.os_extra = {}
        vc.extra_modules = {}
        vc.defaultdict_factory = None
        from .engine import _CUR
        _CUR[0] = vc
        prog = Program(repo)
        I = Interp(vc, prog, EM)
        I.contracts = contracts
        I.unit = unit
        try:
            if hasattr(unit, 'configure'):
                unit.configure(vc, I)
            I.load(getattr(unit, 'modules', None))
            f = prog.funcs.get(unit.fn)
            if f is None:
                raise Unsupported(f'function {unit.fn} not found in the working tree')
            _check_fingerprints(unit, f, res)

            def one_path():
                vc.effect_log = []
                vc.world = None
                I.call_stack = []
                I.depth = 0
                unit.on_path_start(vc, I)
                a = unit.make(vc, I)
                for name, fml in unit.pre(vc, a):
                    vc.assume(fml)
                o = unit.snapshot(vc, a)
                names = params_of(f)
                args = [getattr(a, p) for p in names if hasattr(a, p)]
                try:
                    if any(('lru_cache' in d or d.split('(')[0].endswith('.cache') or d == 'cache') for d in f.decos) and \
                            vc.choose(2, label='memoised') == 1:
                        # a memoised function may answer from its cache: the value computed for the same arguments
                        # in an EARLIER world state, whatever the world looks like now
                        if not hasattr(unit, 'stale_result'):
                            raise Unsupported(f'{unit.fn} is memoised and the contract gives no sort for a cached result')
                        vc.path_log.append('answer taken from the memoisation cache (computed in an earlier state)')
                        ret = unit.stale_result(vc, a)
                        vc.stats['normal_exits'] += 1
                        for name, fml in unit.post(vc, a, o, ret):
                            vc.check(name, fml)
                        return
                    unknown_decos = [d for d in f.decos if d.split('(')[0] not in KNOWN_DECORATORS and
                                     not ('lru_cache' in d or d.split('(')[0].endswith('.cache') or d == 'cache')]
                    if unknown_decos:
                        raise Unsupported(f'{unit.fn} has unmodelled decorator(s) {unknown_decos}')
                    ret = I.run_func(f, args, {})
                    if f.is_gen and not f.is_ctxmgr:
                        ret = unit.drive_generator(vc, I, a, o, ret)
                    elif f.is_ctxmgr:
                        ret = unit.drive_ctxmgr(vc, I, a, o, ret)
                except PyRaise as pr:
                    e = pr.exc
                    vc.stats['exc_exits'] += 1
                    ok = any(e.cls.issub(ExcClass(n)) for n in unit.allowed_exc)
                    if not ok:
                        vc.check('no_unexpected_exception', False, info=f'{e!r} from {e.origin}')
                        return
                    vc.path_log.append(f'raises {e.cls.name} from {e.origin}')
                    for name, fml in unit.exc(vc, a, o, e):
                        vc.check(name, fml)
                    return
                vc.stats['normal_exits'] += 1
                for name, fml in unit.post(vc, a, o, ret):
                    vc.check(name, fml)

            vc.explore(one_path, start=start, budget=budget)
            res.leftover += [(pi, list(p)) for p in vc.work]
        except Unsupported as u:
            res.status = 'undecided'
            res.reason = f'outside the encoded subset: {u}'
        except CheckerError as c:
            res.status = 'error'
            res.reason = f'checker error: {c}'
        except PyRaise as pr:
            res.status = 'error'
            res.reason = f'uncaught interpreted exception outside the unit body: {pr.exc!r} ({pr.exc.origin})'
        except Exception as ex:           # engine bug
            res.status = 'error'
            res.reason = 'engine exception: ' + ''.join(traceback.format_exception_only(type(ex), ex)).strip() + \
                ' @ ' + ' <- '.join(f'{fr.name}:{fr.lineno}' for fr in traceback.extract_tb(ex.__traceback__)[-4:][::-1])
        for k, ob in vc.obligations.items():
            res.obligations[k] = ob
        for k, v in vc.stats.items():
            res.stats[k] = res.stats.get(k, 0) + v
        res.callees |= vc.callees_used
        res.env_used |= vc.env_used
        res.notes += vc.notes
        if res.status == 'ok' and vc.stats['normal_exits'] + vc.stats['exc_exits'] == 0 and jobs is None and budget is None:
            res.status = 'error'
            res.reason = 'vacuous: no path reaches an exit of the function (contradictory precondition?)'
    res.wall = time.time() - t0
    return res


def _check_fingerprints(unit, f, res):
    import ast
    for ordinal, spec in getattr(unit, 'loops', {}).items():
        spec.ordinal = ordinal
        if ordinal >= len(f.loops):
            raise Unsupported(f'{unit.fn}: contract has an invariant for loop #{ordinal} but the function has '
                              f'{len(f.loops)} loops')
        if spec.fingerprint:
            node = f.loops[ordinal]
            head = ast.unparse(node.test) if isinstance(node, ast.While) else \
                f'{ast.unparse(node.target)} in {ast.unparse(node.iter)}'
            if head != spec.fingerprint:
                res.notes.append(f'{unit.fn}: loop #{ordinal} header changed: {head!r} (contract written for '
                                 f'{spec.fingerprint!r}); invariant still applied by ordinal')
