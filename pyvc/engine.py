"""pyvc engine: symbolic execution of the real AST of /repo/disk_objectstore, path by path.

Design (DESIGN.md 2.4): forward symbolic execution; every symbolic branch is a *decision*;
paths are enumerated depth-first by re-executing the unit with a recorded decision prefix.
Loops are cut with invariants, calls are replaced by the callee's contract (or inlined when the
unit says so), environment calls are interpreted by the trusted models in pyvc/envmodel.py.
"""
from __future__ import annotations

import ast
import os
import time

import z3

from .values import (SV, SBool, SBytes, SInt, SSet, SStr, Unsupported, _SSeq, b_and, b_not, b_or, conc,
                     fresh_name, implies, is_sym, ite, py_eq, reset_names, slen, smax, smin)

REPO = os.environ.get('PYVC_REPO', '/repo')


class BigConst(SInt):
    """A large integer literal of the repository, generalised to a symbolic positive integer; arithmetic with other
    literals is still folded on the literal value (so 131072 // 1024 is the literal 128, not K // 1024)."""
    __slots__ = ('value',)

    def __init__(self, t, value):
        SInt.__init__(self, t)
        self.value = value

    @staticmethod
    def _lit(x):
        if isinstance(x, BigConst):
            return x.value
        if isinstance(x, int) and not isinstance(x, bool):
            return x
        return None

    @staticmethod
    def _mk(v):
        if isinstance(v, int) and v >= 65536:
            return cur().big_const(v)
        return v

    def __floordiv__(self, o):
        l = self._lit(o)
        return self._mk(self.value // l) if l not in (None, 0) else SInt.__floordiv__(self, o)

    def __rfloordiv__(self, o):
        l = self._lit(o)
        return self._mk(l // self.value) if l is not None else NotImplemented

    def __mul__(self, o):
        l = self._lit(o)
        return self._mk(self.value * l) if l is not None else SInt.__mul__(self, o)

    __rmul__ = __mul__

    def __add__(self, o):
        l = self._lit(o)
        return self._mk(self.value + l) if l is not None else SInt.__add__(self, o)

    __radd__ = __add__

    __hash__ = SInt.__hash__


# ----------------------------------------------------------------------------- control-flow signals
class PathEnd(Exception):
    """The current path ends here (loop cut point, infeasible, assume(False))."""


class ReturnSig(Exception):
    def __init__(self, value):
        self.value = value


class BreakSig(Exception):
    pass


class ContinueSig(Exception):
    pass


class PyRaise(Exception):
    """A Python exception raised by the interpreted program."""

    def __init__(self, exc):
        self.exc = exc


class CheckerError(Exception):
    """Engine/contract bug -> exit 3."""


# ----------------------------------------------------------------------------- exception values
EXC_PARENT = {
    'BaseException': None, 'Exception': 'BaseException', 'GeneratorExit': 'BaseException',
    'OSError': 'Exception', 'FileNotFoundError': 'OSError', 'FileExistsError': 'OSError',
    'PermissionError': 'OSError', 'IsADirectoryError': 'OSError', 'NotADirectoryError': 'OSError',
    'ValueError': 'Exception', 'AssertionError': 'Exception', 'TypeError': 'Exception',
    'LookupError': 'Exception', 'KeyError': 'LookupError', 'IndexError': 'LookupError',
    'StopIteration': 'Exception', 'RuntimeError': 'Exception', 'NotImplementedError': 'RuntimeError',
    'AttributeError': 'Exception', 'ImportError': 'Exception', 'ZeroDivisionError': 'Exception',
    'zlib.error': 'Exception', 'NameError': 'Exception', 'UnboundLocalError': 'NameError',
    # sqlalchemy
    'IntegrityError': 'Exception', 'OperationalError': 'Exception',
    # repo (disk_objectstore.exceptions)
    'NotExistent': 'Exception', 'NotInitialised': 'Exception', 'InconsistentContent': 'Exception',
    'ModificationNotAllowed': 'Exception', 'ClosingNotAllowed': 'Exception', 'DynamicInconsistentContent': 'Exception',
    'BackupError': 'Exception',
}


class ExcClass:
    def __init__(self, name):
        self.name = name

    def __repr__(self):
        return f'<exc {self.name}>'

    def issub(self, other):
        n = self.name
        while n is not None:
            if n == other.name:
                return True
            n = EXC_PARENT.get(n)
        return False

    def __eq__(self, o):
        return isinstance(o, ExcClass) and o.name == self.name

    def __hash__(self):
        return hash(self.name)


class ExcVal:
    def __init__(self, cls, args=(), cause=None, origin=None):
        self.cls = cls if isinstance(cls, ExcClass) else ExcClass(cls)
        self.args = args
        self.cause = cause
        self.origin = origin   # free-form tag: which env call / statement raised it

    def __repr__(self):
        return f'{self.cls.name}{self.args!r}'


def raise_py(name, *args, origin=None):
    raise PyRaise(ExcVal(name, args, origin=origin))


# ----------------------------------------------------------------------------- program values
class RepoModule:
    def __init__(self, name):
        self.name = name
        self.ns = {}

    def __repr__(self):
        return f'<module {self.name}>'


class RepoFunc:
    def __init__(self, node, module, qualname, env, cls=None):
        self.node = node
        self.module = module
        self.qualname = qualname      # 'utils:PackedObjectReader.seek'
        self.env = env                # defining environment (closure)
        self.cls = cls
        decos = []
        for d in node.decorator_list:
            decos.append(ast.unparse(d))
        self.decos = decos
        self.is_gen = any(isinstance(n, (ast.Yield, ast.YieldFrom)) for n in _walk_own(node))
        self.is_property = 'property' in decos
        self.is_static = 'staticmethod' in decos
        self.is_classmethod = 'classmethod' in decos
        self.is_ctxmgr = 'contextmanager' in decos
        self.is_overload = 'overload' in decos
        self.is_abstract = any('abstractmethod' in d for d in decos)

    def __repr__(self):
        return f'<func {self.qualname}>'


def _walk_own(fnode):
    """Walk a function body without descending into nested function/lambda/class definitions."""
    stack = list(fnode.body)
    while stack:
        n = stack.pop()
        yield n
        for c in ast.iter_child_nodes(n):
            if isinstance(c, (ast.FunctionDef, ast.Lambda, ast.ClassDef, ast.AsyncFunctionDef)):
                continue
            stack.append(c)


class RepoClass:
    def __init__(self, name, module, bases):
        self.name = name
        self.module = module
        self.bases = bases
        self.attrs = {}
        self.is_enum = any(getattr(b, 'name', None) == 'Enum' for b in bases)

    def lookup(self, name):
        if name in self.attrs:
            return self.attrs[name]
        for b in self.bases:
            if isinstance(b, RepoClass):
                r = b.lookup(name)
                if r is not _MISSING:
                    return r
        return _MISSING

    def issub(self, other):
        if self is other:
            return True
        return any(isinstance(b, RepoClass) and b.issub(other) for b in self.bases)

    def __repr__(self):
        return f'<class {self.name}>'


_MISSING = object()


class PyObj:
    """Instance of a repository class. Fields hold engine values."""

    def __init__(self, cls):
        self.cls = cls
        self.f = {}

    def __repr__(self):
        return f'<{self.cls.name} obj {sorted(self.f)}>'


class EnumVal:
    def __init__(self, cls, name, value):
        self.cls = cls
        self.name = name
        self.value = value

    def __repr__(self):
        return f'{self.cls.name}.{self.name}'


class BoundMethod:
    def __init__(self, obj, func):
        self.obj = obj
        self.func = func

    def __repr__(self):
        return f'<bound {self.func.qualname}>'


class Closure:
    """lambda or nested def."""

    def __init__(self, node, env, name='<lambda>'):
        self.node = node
        self.env = env
        self.name = name
        self.is_gen = not isinstance(node, ast.Lambda) and any(
            isinstance(n, (ast.Yield, ast.YieldFrom)) for n in _walk_own(node))


class GenObj:
    """A started-on-demand interpreted generator."""

    def __init__(self, pygen, name):
        self.pygen = pygen
        self.name = name
        self.done = False


class CtxMgrObj:
    """Result of calling a @contextmanager function."""

    def __init__(self, gen):
        self.gen = gen


class MSet:
    """Mutable Python set of str, content is an immutable SSet."""

    def __init__(self, s):
        self.s = s


class MList:
    """Python list. `items` is a concrete Python list of engine values when the length is concrete;
    otherwise the list is abstract and described by ghost fields set by contracts/env models."""

    def __init__(self, items=None, **ghost):
        self.items = items
        self.g = ghost     # abstract lists: 'n' (SInt length), 'elems' (SSet of str), ...

    def __repr__(self):
        return f'MList({self.items if self.items is not None else self.g})'


class MDict:
    """Python dict with concrete-or-symbolic keys as an association list."""

    def __init__(self, pairs=None):
        self.pairs = list(pairs or [])


class Dummy:
    """Opaque value with no behaviour of interest (typing objects, loggers, ...)."""

    def __init__(self, name):
        self.name = name

    def __repr__(self):
        return f'<dummy {self.name}>'


class Env:
    def __init__(self, parent=None, vars=None):
        self.parent = parent
        self.vars = vars if vars is not None else {}
        self.nonlocal_names = set()

    def lookup(self, name):
        e = self
        while e is not None:
            if name in e.vars:
                return e.vars[name]
            e = e.parent
        return _MISSING

    def assign(self, name, value):
        self.vars[name] = value


# ----------------------------------------------------------------------------- obligations
class Obligation:
    def __init__(self, name):
        self.name = name
        self.paths = 0
        self.discharged = 0
        self.failed = []      # list of dict(model=..., path=...)
        self.unknown = []
        self.witnessed = False
        self.vacuous_paths = 0
        self.twin_tries = 0
        self.time = 0.0
        self.sample = None

    @property
    def status(self):
        if self.failed:
            return 'failed'
        if self.unknown:
            return 'unknown'
        return 'discharged'


class Forall:
    """Universally quantified clause: fn(x) -> SBool, x ranging over str (hash keys, names; the default) or int
    (pack ids, row ids).  Never sent to the solver as a quantifier: hypotheses are instantiated at the ground terms
    registered on the path (`Engine.key` / `Engine.ikey`), goals are skolemised."""

    def __init__(self, fn, sort='str'):
        self.fn = fn
        self.sort = sort


class ForallCases(Forall):
    """forall k. ante(k) => conseq(k), proved by an exhaustive case split: for the skolem key the antecedent and each
    case are *assumed* (solver scope) before the consequent's terms are built, so that the term normaliser can use them
    (e.g. `k is an old batch key` => its range lies inside the old content).  As a hypothesis it is the plain implication."""

    def __init__(self, ante, cases, conseq, sort='str'):
        Forall.__init__(self, lambda k: implies(ante(k), conseq(k)), sort)
        self.ante, self.cases, self.conseq = ante, cases, conseq


# ----------------------------------------------------------------------------- the engine
_CUR = [None]


def cur() -> 'Engine':
    return _CUR[0]


class Engine:
    def __init__(self, program, timeout_ms=10000, max_paths=4000, profile=None):
        self.program = program
        self.timeout_ms = timeout_ms
        self.max_paths = max_paths
        self.profile = profile or {}
        self.obligations = {}
        self.stats = {'paths': 0, 'infeasible': 0, 'solver_calls': 0, 'solver_time': 0.0, 'normal_exits': 0,
                      'exc_exits': 0, 'cut': 0}
        self.notes = []
        self.unit = None
        # per path
        self.solver = None
        self.prefix = []
        self.trace = []
        self.work = []
        self.univ = []
        self.key_terms = []
        self.int_terms = {}
        self._instantiating = False
        self._scope_depth = 0
        self.path_id = 0
        self.path_log = []
        self.env_hook = None
        self.ghost = {}
        self.big_consts = {}
        self.feas_timeout_ms = int(os.environ.get('PYVC_FEAS_TIMEOUT_MS', '300'))
        # side conditions of term normalisation: true ones are refuted in milliseconds, false ones need a model (slow)
        self.prove_timeout_ms = int(os.environ.get('PYVC_PROVE_TIMEOUT_MS', '200'))

    # ------------------------------------------------------------------ path exploration
    def explore(self, body, start=None, budget=None):
        """Run `body()` (a Python callable executing one path) for every decision sequence extending one of the
        prefixes in `start` (default: all). With a `budget`, stop after that many paths; the unexplored prefixes stay in
        self.work (work sharing between processes)."""
        self.work = [list(p) for p in start] if start is not None else [[]]
        while self.work:
            if budget is not None and self.stats['paths'] >= budget:
                break
            if self.stats['paths'] >= self.max_paths:
                raise Unsupported(f'path budget exceeded ({self.max_paths}) in {self.unit}')
            self.prefix = self.work.pop()
            self.trace = []
            self.solver = z3.Solver()
            self.solver.set('timeout', self.timeout_ms)
            for k in self.big_consts.values():
                self.solver.add(k.t >= 1)
            self.univ = []
            self.key_terms = []
            self.int_terms = {}
            self._instantiating = False
            self._scope_depth = 0
            self.path_log = []
            self.ghost = {}
            reset_names()
            from . import values as _V
            _V._PROVER[0] = self._prove_quick
            self.stats['paths'] += 1
            self.path_id += 1
            _CUR[0] = self
            _t0 = time.time()
            try:
                body()
            except PathEnd:
                pass
            if os.environ.get('PYVC_TRACE'):
                import sys
                print(f'[path {self.stats["paths"]} {time.time() - _t0:.1f}s queue={len(self.work)}] {self.path_log[-5:]}', file=sys.stderr, flush=True)
            if os.environ.get('PYVC_MAX_PATHS') and self.stats['paths'] >= int(os.environ['PYVC_MAX_PATHS']):
                break

    def big_const(self, v):
        k = BigConst(z3.Int(f'K_{v}'), v)
        if v not in self.big_consts:
            self.big_consts[v] = k
            if self.solver is not None:
                self.solver.add(k.t >= 1)
            self.note(f'integer literal {v} generalised to an arbitrary positive integer K_{v}')
        return k

    def _prove_quick(self, cond):
        """Used by the term simplifier: does the current path condition imply `cond`? (arithmetic side conditions)"""
        key = cond.get_id()
        cache = self.ghost.setdefault('__prove_cache__', {})
        # a cached True stays valid (the path condition only grows); a cached False is retried
        if key in cache:
            return True        # the cached term is kept alive below, so its AST id cannot be recycled for another term
        self.solver.push()
        self.solver.set('timeout', self.prove_timeout_ms)
        try:
            self.solver.add(z3.Not(cond))
            t0 = time.time()
            r = self.solver.check()
            self.stats['solver_calls'] += 1
            self.stats['solver_time'] += time.time() - t0
            if time.time() - t0 > float(os.environ.get('PYVC_SLOW_T', '1.0')) and os.environ.get('PYVC_SLOW'):
                import sys
                print(f'[slow prove_quick {time.time() - t0:.1f}s {r}] {str(cond)[:200]}', file=sys.stderr, flush=True)
        finally:
            self.solver.pop()
            self.solver.set('timeout', self.timeout_ms)
        if r == z3.unsat:
            if self._scope_depth == 0:
                cache[key] = cond     # (inside a pushed scope the fact may not survive the pop: not memoised)
            return True
        return False

    def _check_sat(self, *assumptions):
        t0 = time.time()
        r = self.solver.check(*assumptions)
        dt = time.time() - t0
        if dt > float(os.environ.get('PYVC_SLOW_T', '1.0')) and os.environ.get('PYVC_SLOW'):
            import sys
            print(f'[slow {dt:.1f}s {r}] path={self.path_log[-4:]} q={str(assumptions)[:300]}', file=sys.stderr, flush=True)
            if os.environ.get('PYVC_SLOW') == 'dump':
                open(f'/tmp/pv/slow_{int(t0)}.smt2', 'w').write(self.solver.to_smt2() + '\n; ' + str(assumptions))
        self.stats['solver_calls'] += 1
        self.stats['solver_time'] += dt
        return r

    def decide(self, conds, labels=None):
        """Choose one of several alternatives. `conds` are z3 Bool terms (or None = unconstrained).
        Returns the index chosen on this path; other feasible alternatives are queued."""
        pos = len(self.trace)
        if pos < len(self.prefix):
            i = self.prefix[pos]
        else:
            feas = []
            # feasibility pruning only needs refutations; `unknown` keeps the branch (sound). Short budget: finding a
            # model of a path condition with sequence terms is the expensive direction.
            self.solver.set('timeout', min(self.timeout_ms, self.feas_timeout_ms))
            try:
                for j, c in enumerate(conds):
                    if c is None:
                        feas.append(j)
                        continue
                    r = self._check_sat(c)
                    if r != z3.unsat:
                        feas.append(j)
            finally:
                self.solver.set('timeout', self.timeout_ms)
            if not feas:
                self.stats['infeasible'] += 1
                raise PathEnd()
            i = feas[0]
            for j in reversed(feas[1:]):
                self.work.append(self.trace + [j])
        self.trace.append(i)
        if conds[i] is not None:
            self.solver.add(conds[i])
        if labels:
            self.path_log.append(labels[i])
        return i

    def branch(self, cond, label=None):
        """Python truth of a (possibly symbolic) boolean on this path."""
        if isinstance(cond, bool):
            return cond
        if not isinstance(cond, SBool):
            cond = self.truth(cond)
            if isinstance(cond, bool):
                return cond
        t = z3.simplify(cond.t)
        if z3.is_true(t):
            return True
        if z3.is_false(t):
            return False
        i = self.decide([t, z3.Not(t)], [f'{label or "if"}:T', f'{label or "if"}:F'] if label else None)
        return i == 0

    def choose(self, n, label='choice'):
        """Unconstrained nondeterministic choice among n alternatives."""
        return self.decide([None] * n, [f'{label}:{i}' for i in range(n)])

    def nondet_bool(self, label='nondet'):
        return self.choose(2, label) == 0

    # ------------------------------------------------------------------ logic
    def assume(self, f):
        if isinstance(f, Forall):
            self.univ.append(f)
            self._instantiating = True
            try:
                for k in list(self.key_terms if f.sort == 'str' else self.int_terms.get(f.sort, [])):
                    self.solver.add(SBool.of(f.fn(k)).t)
            finally:
                self._instantiating = False
            return
        if isinstance(f, bool):
            if not f:
                raise PathEnd()
            return
        self.solver.add(SBool.of(f).t)

    def key(self, k):
        """Register a hash-key term for instantiation of universally quantified hypotheses."""
        k = SStr.of(k)
        if self._instantiating:
            return k       # terms that only arise inside an instance of a hypothesis do not trigger further instances
        for e in self.key_terms:
            if e.t.eq(k.t):
                return k
        self.key_terms.append(k)
        self._instantiating = True
        try:
            for f in list(self.univ):
                if f.sort == 'str':
                    self.solver.add(SBool.of(f.fn(k)).t)
        finally:
            self._instantiating = False
        return k

    def ikey(self, i, sort='int'):
        """Register an integer term of quantifier sort `sort` ('pack': pack ids, 'ino': inode numbers, 'int': any) for
        the instantiation of the hypotheses quantified over that sort."""
        i = SInt.of(i)
        if self._instantiating:
            return i
        terms = self.int_terms.setdefault(sort, [])
        for e in terms:
            if e.t.eq(i.t):
                return i
        terms.append(i)
        self._instantiating = True
        try:
            for f in list(self.univ):
                if f.sort == sort:
                    self.solver.add(SBool.of(f.fn(i)).t)
        finally:
            self._instantiating = False
        return i

    def fresh_key(self, hint='k'):
        return self.key(SStr.fresh(hint))

    def check(self, name, f, info=None):
        """Proof obligation `name`: path condition => f."""
        if self.unit is not None and not name.startswith(('utils:', 'container:', 'backup_utils:', 'lemma:')):
            name = f'{self.unit}:{name}'
        ob = self.obligations.get(name)
        if ob is None:
            ob = self.obligations[name] = Obligation(name)
        ob.paths += 1
        if isinstance(f, ForallCases):
            return self._check_cases(ob, name, f, info)
        if isinstance(f, Forall):
            f = f.fn(self.fresh_key('sk') if f.sort == 'str' else self.ikey(SInt.fresh('ski'), f.sort))
        if isinstance(f, bool):
            f = SBool.of(f)
        t = z3.simplify(SBool.of(f).t)
        t0 = time.time()
        if z3.is_true(t):
            r = z3.unsat
        else:
            r = self._check_sat(z3.Not(t))
        if r == z3.unsat:
            ob.discharged += 1
            if not ob.witnessed and ob.twin_tries < 2:
                # vacuity twin: the hypotheses together with the clause must be satisfiable (tried on the first paths only;
                # model finding is the expensive direction, `unknown` is not counted as vacuous)
                ob.twin_tries += 1
                self.solver.set('timeout', 400)
                rr = self._check_sat(t)
                self.solver.set('timeout', self.timeout_ms)
                if rr == z3.sat:
                    ob.witnessed = True
                    if ob.sample is None:
                        ob.sample = {'clause': str(t)[:300], 'path': list(self.path_log)[-6:]}
                elif rr == z3.unsat:
                    ob.vacuous_paths += 1      # on this path the hypotheses contradict the clause's truth: dead path
        elif r == z3.sat:
            m = self.solver.model()
            ob.failed.append({'path': list(self.path_log), 'trace': list(self.trace), 'model': self._model_dict(m),
                              'clause': str(t)[:2000], 'info': info})
            ob.witnessed = True
        else:
            # second attempt, one-shot (non-incremental) solver on the same assertions: z3's incremental core is weaker
            r2 = self._one_shot(z3.Not(t), name) if os.environ.get('PYVC_ONE_SHOT') else z3.unknown
            if r2 == z3.unsat:
                r = z3.unsat
                ob.discharged += 1
                self.stats['one_shot_rescues'] = self.stats.get('one_shot_rescues', 0) + 1
            elif r2 == z3.sat:
                r = z3.sat
                ob.failed.append({'path': list(self.path_log), 'trace': list(self.trace), 'model': {'note': 'model found by the one-shot solver'},
                                  'clause': str(t)[:2000], 'info': info})
                ob.witnessed = True
            else:
                ob.unknown.append({'path': list(self.path_log), 'reason': self.solver.reason_unknown(), 'clause': str(t)[:500]})
        ob.time += time.time() - t0
        if os.environ.get('PYVC_TRACE') and time.time() - t0 > 0.5:
            import sys
            print(f'   [check {time.time() - t0:.1f}s {r}] {name}', file=sys.stderr, flush=True)
        self.solver.add(t)
        return r == z3.unsat

    def _check_cases(self, ob, name, f, info):
        t0 = time.time()
        # the skolem constant is registered for instantiation only INSIDE each case scope (below), so that the instances
        # of the hypotheses are built with the antecedent and the case assumption available to the term normaliser
        sk = SStr.fresh('sk') if f.sort == 'str' else SInt.fresh('ski')
        ok = True
        self.solver.push()
        self._scope_depth += 1
        try:
            self.solver.add(SBool.of(f.ante(sk)).t)
            cases = [tuple(c) + (None,) * (3 - len(c)) for c in f.cases(sk)]
            r = self._check_sat(z3.Not(z3.Or(*[SBool.of(c[1]).t for c in cases])))
            results = [('cases_exhaustive', r)]
            for cname, cond, rep in cases:
                self.solver.push()
                self._scope_depth += 1
                try:
                    self.solver.add(SBool.of(cond).t)
                    # a case of the form `k == t` may name t: the consequent is then built for t itself (same thing under
                    # the case assumption, but the terms simplify syntactically)
                    if rep is not None:
                        self.solver.add((sk == rep).t)
                    self._instantiating = True
                    try:
                        for hyp in list(self.univ):
                            if hyp.sort == f.sort:
                                self.solver.add(SBool.of(hyp.fn(sk)).t)
                    finally:
                        self._instantiating = False
                    t = z3.simplify(SBool.of(f.conseq(sk if rep is None else rep)).t)
                    if z3.is_true(t):
                        r = z3.unsat
                    else:
                        # a conjunction is discharged conjunct by conjunct (each with its own solver budget)
                        r = z3.unsat
                        for cj in (t.children() if z3.is_and(t) else [t]):
                            rc = self._check_sat(z3.Not(cj))
                            if rc != z3.unsat and os.environ.get('PYVC_TRACE') == 'goal':
                                import sys
                                print(f'      [{cname}] conjunct {rc}: {str(cj)[:1500]}', file=sys.stderr, flush=True)
                            if rc == z3.sat:
                                r = z3.sat
                                break
                            if rc != z3.unsat:
                                r = rc
                    results.append((cname, r))
                    if r != z3.unsat and os.environ.get('PYVC_TRACE') == 'goal':
                        import sys
                        conj = t.children() if z3.is_and(t) else [t]
                        for cj in conj:
                            rr = self._check_sat(z3.Not(cj))
                            print(f'      [{cname}] conjunct {rr}: {str(cj)[:1200]}', file=sys.stderr, flush=True)
                finally:
                    self._scope_depth -= 1
                    self.solver.pop()
        finally:
            self._scope_depth -= 1
            self.solver.pop()
        # (registered at top level afterwards: later hypotheses see the constant too)
        if f.sort == 'str':
            self.key(sk)
        else:
            self.ikey(sk, f.sort)
        bad = [(n, r) for n, r in results if r != z3.unsat]
        if not bad:
            ob.discharged += 1
            ob.witnessed = True
        elif any(r == z3.sat for _, r in bad):
            ob.failed.append({'path': list(self.path_log), 'trace': list(self.trace), 'model': {'cases': str(bad)},
                              'clause': f'case split {[n for n, _ in results]}: {bad}', 'info': info})
        else:
            ob.unknown.append({'path': list(self.path_log), 'reason': self.solver.reason_unknown() + f' in case(s) {[n for n, _ in bad]}',
                               'clause': f'case split {[n for n, _ in results]}'})
        ob.time += time.time() - t0
        if os.environ.get('PYVC_TRACE') and time.time() - t0 > 0.5:
            import sys
            print(f'   [check-cases {time.time() - t0:.1f}s {results}] {name}', file=sys.stderr, flush=True)
        if not bad:
            self.assume(Forall(f.fn, f.sort))
        return not bad

    def _one_shot(self, negated_goal, name=''):
        s2 = z3.Solver()
        s2.set('timeout', self.timeout_ms)
        for a_ in self.solver.assertions():
            s2.add(a_)
        s2.add(negated_goal)
        t0 = time.time()
        r = s2.check()
        self.stats['solver_calls'] += 1
        self.stats['solver_time'] += time.time() - t0
        if os.environ.get('PYVC_TRACE'):
            import sys
            print(f'   [one-shot {time.time() - t0:.1f}s {r}] {name}', file=sys.stderr, flush=True)
        if os.environ.get('PYVC_SLOW') == 'dump' and r == z3.unknown:
            open(f'/tmp/pv/unk_{int(t0)}.smt2', 'w').write(s2.to_smt2())
        return r

    def _model_dict(self, m):
        out = {}
        for d in m.decls():
            try:
                v = m[d]
                out[d.name()] = str(v)[:200]
            except Exception:      # pragma: no cover
                pass
        return out

    def note(self, msg):
        if msg not in self.notes:
            self.notes.append(msg)

    # ------------------------------------------------------------------ truthiness & basic ops
    def truth(self, v):
        if isinstance(v, bool):
            return v
        if v is None:
            return False
        if isinstance(v, SBool):
            return v
        if isinstance(v, SInt):
            return v != 0
        if isinstance(v, _SSeq):
            return v.length() > 0
        if isinstance(v, (int, str, bytes, tuple, list, dict, set, frozenset)):
            return bool(v)
        if isinstance(v, MSet):
            return b_not(v.s.is_empty())
        if isinstance(v, MList):
            if v.items is not None:
                return bool(v.items)
            return SInt.of(v.g['n']) > 0
        if isinstance(v, MDict):
            return bool(v.pairs)
        if hasattr(v, 'sym_truth'):
            return v.sym_truth(self)
        return True

    def fresh_like(self, v, hint='h'):
        if isinstance(v, (SInt, int)) and not isinstance(v, bool):
            return SInt.fresh(hint)
        if isinstance(v, (SBool, bool)):
            return SBool(z3.Bool(fresh_name(hint)))
        if isinstance(v, (SBytes, bytes)):
            return SBytes.fresh(hint)
        if isinstance(v, (SStr, str)):
            return SStr.fresh(hint)
        if isinstance(v, SSet):
            return SSet.fresh(hint)
        raise Unsupported(f'cannot havoc a value of type {type(v).__name__}')

    def fresh_bool(self, hint='b'):
        return SBool(z3.Bool(fresh_name(hint)))
