"""Symbolic value layer of pyvc.

Python values handled by the symbolic executor are either plain Python values
(kept concrete whenever possible) or instances of the wrapper classes below,
each carrying a z3 term.  All operators return wrappers, so both the
interpreter and the contract sidecars can write ordinary Python expressions.

Encoding (what of Python's semantics is assumed; see DESIGN.md section 2.2):
  int    -> SMT Int (exact, unbounded)
  bool   -> SMT Bool
  bytes  -> SMT String (sequence of code points; only length / concat / slice /
            equality are ever used, contents are opaque)
  str    -> SMT String
  set[str] -> SMT Array(String, Bool) (z3 set theory, extensional equality)
"""
from __future__ import annotations

import z3

_counter = [0]


def reset_names():
    _counter[0] = 0


def fresh_name(hint='v'):
    _counter[0] += 1
    return f'{hint}!{_counter[0]}'


class Unsupported(Exception):
    """The code left the Python subset the engine encodes -> UNDECIDED, never a violation."""


class SV:
    """Base class of symbolic values."""
    __slots__ = ('t',)

    def __init__(self, t):
        self.t = t

    def __repr__(self):
        return f'{type(self).__name__}({self.t})'

    def __hash__(self):
        return hash((type(self).__name__, self.t.get_id()))

    def __bool__(self):
        raise Unsupported(f'symbolic {type(self).__name__} used as a Python bool outside the engine: {self.t}')


def is_sym(v):
    return isinstance(v, SV)


# ----------------------------------------------------------------------------- bool
class SBool(SV):
    __slots__ = ()

    @staticmethod
    def of(v):
        if isinstance(v, SBool):
            return v
        if isinstance(v, bool):
            return SBool(z3.BoolVal(v))
        if isinstance(v, z3.BoolRef):
            return SBool(v)
        raise Unsupported(f'not a bool: {v!r}')

    def __and__(self, o):
        return SBool(z3.And(self.t, SBool.of(o).t))

    __rand__ = __and__

    def __or__(self, o):
        return SBool(z3.Or(self.t, SBool.of(o).t))

    __ror__ = __or__

    def __invert__(self):
        return SBool(z3.Not(self.t))

    def implies(self, o):
        return SBool(z3.Implies(self.t, SBool.of(o).t))

    def __eq__(self, o):
        return SBool(self.t == SBool.of(o).t)

    def __ne__(self, o):
        return SBool(self.t != SBool.of(o).t)

    __hash__ = SV.__hash__


def b_and(*xs):
    xs = [SBool.of(x).t for x in xs]
    return SBool(z3.And(*xs)) if xs else SBool(z3.BoolVal(True))


def b_or(*xs):
    xs = [SBool.of(x).t for x in xs]
    return SBool(z3.Or(*xs)) if xs else SBool(z3.BoolVal(False))


def b_not(x):
    return SBool(z3.Not(SBool.of(x).t))


def implies(a, b):
    return SBool(z3.Implies(SBool.of(a).t, SBool.of(b).t))


def ite(c, a, b):
    c = SBool.of(c).t
    if isinstance(a, (SInt, int)) and not isinstance(a, bool) and isinstance(b, (SInt, int)) and not isinstance(b, bool):
        return SInt(z3.If(c, SInt.of(a).t, SInt.of(b).t))
    if isinstance(a, (SBool, bool)) and isinstance(b, (SBool, bool)):
        return SBool(z3.If(c, SBool.of(a).t, SBool.of(b).t))
    if isinstance(a, (SBytes, bytes)) and isinstance(b, (SBytes, bytes)):
        return SBytes(z3.If(c, SBytes.of(a).t, SBytes.of(b).t))
    if isinstance(a, (SStr, str)) and isinstance(b, (SStr, str)):
        return SStr(z3.If(c, SStr.of(a).t, SStr.of(b).t))
    if isinstance(a, SSet) and isinstance(b, SSet):
        return SSet(z3.If(c, a.t, b.t))
    raise Unsupported(f'ite over {type(a).__name__}/{type(b).__name__}')


# ----------------------------------------------------------------------------- int
class SInt(SV):
    __slots__ = ()

    @staticmethod
    def of(v):
        if isinstance(v, SInt):
            return v
        if isinstance(v, bool):
            return SInt(z3.IntVal(int(v)))
        if isinstance(v, int):
            return SInt(z3.IntVal(v))
        if isinstance(v, z3.ArithRef):
            return SInt(v)
        if isinstance(v, SBool):
            return SInt(z3.If(v.t, z3.IntVal(1), z3.IntVal(0)))
        raise Unsupported(f'not an int: {v!r}')

    @staticmethod
    def fresh(hint='i'):
        return SInt(z3.Int(fresh_name(hint)))

    def __add__(self, o):
        if isinstance(o, (SInt, int, SBool)):
            return SInt(self.t + SInt.of(o).t)
        return NotImplemented

    __radd__ = __add__

    def __sub__(self, o):
        return SInt(self.t - SInt.of(o).t)

    def __rsub__(self, o):
        return SInt(SInt.of(o).t - self.t)

    def __mul__(self, o):
        if isinstance(o, (SInt, int)):
            return SInt(self.t * SInt.of(o).t)
        return NotImplemented

    __rmul__ = __mul__

    def __neg__(self):
        return SInt(-self.t)

    def __floordiv__(self, o):
        # Python floor division; SMT-LIB div is floor for a positive divisor. Only positive
        # concrete divisors are encoded.
        if isinstance(o, int) and not isinstance(o, bool) and o > 0:
            return SInt(self.t / z3.IntVal(o))
        raise Unsupported('floor division by a non-constant or non-positive divisor')

    def __mod__(self, o):
        if isinstance(o, int) and not isinstance(o, bool) and o > 0:
            return SInt(self.t % z3.IntVal(o))
        raise Unsupported('modulo by a non-constant or non-positive divisor')

    def __lt__(self, o):
        return SBool(self.t < SInt.of(o).t)

    def __le__(self, o):
        return SBool(self.t <= SInt.of(o).t)

    def __gt__(self, o):
        return SBool(self.t > SInt.of(o).t)

    def __ge__(self, o):
        return SBool(self.t >= SInt.of(o).t)

    def __eq__(self, o):
        if o is None:
            return SBool(z3.BoolVal(False))
        if isinstance(o, (SInt, int, SBool)):
            return SBool(self.t == SInt.of(o).t)
        return SBool(z3.BoolVal(False))

    def __ne__(self, o):
        return b_not(self.__eq__(o))

    __hash__ = SV.__hash__


def smin(a, b):
    if not is_sym(a) and not is_sym(b):
        return min(a, b)
    a, b = SInt.of(a), SInt.of(b)
    return SInt(z3.If(a.t <= b.t, a.t, b.t))


def smax(a, b):
    if not is_sym(a) and not is_sym(b):
        return max(a, b)
    a, b = SInt.of(a), SInt.of(b)
    return SInt(z3.If(a.t >= b.t, a.t, b.t))


# ----------------------------------------------------------------------------- strings / bytes
class _SSeq(SV):
    __slots__ = ()
    _py = str

    @classmethod
    def of(cls, v):
        if isinstance(v, cls):
            return v
        if isinstance(v, cls._py):
            if cls._py is bytes:
                return cls(z3.StringVal(v.decode('latin-1')))
            return cls(z3.StringVal(v))
        if isinstance(v, z3.SeqRef):
            return cls(v)
        raise Unsupported(f'not a {cls._py.__name__}: {v!r}')

    @classmethod
    def fresh(cls, hint='s'):
        return cls(z3.String(fresh_name(hint)))

    def length(self):
        return SInt(_smart_len(self.t))

    def __add__(self, o):
        if isinstance(o, (type(self), self._py)):
            return type(self)(_concat(self.t, type(self).of(o).t))
        return NotImplemented

    def __radd__(self, o):
        if isinstance(o, self._py):
            return type(self)(_concat(type(self).of(o).t, self.t))
        return NotImplemented

    def __eq__(self, o):
        if isinstance(o, (type(self), self._py)):
            return SBool(self.t == type(self).of(o).t)
        return SBool(z3.BoolVal(False))

    def __ne__(self, o):
        return b_not(self.__eq__(o))

    __hash__ = SV.__hash__

    def slice(self, lo, hi):
        """Python s[lo:hi] for non-negative bounds (None = open)."""
        lo = SInt.of(0 if lo is None else lo)
        if hi is None:
            n = z3.Length(self.t) - lo.t
        else:
            n = SInt.of(hi).t - lo.t
        return type(self)(_substr(self.t, lo.t, n))

    def startswith(self, p):
        return SBool(z3.PrefixOf(type(self).of(p).t, self.t))

    def endswith(self, p):
        return SBool(z3.SuffixOf(type(self).of(p).t, self.t))

    def contains(self, p):
        return SBool(z3.Contains(self.t, type(self).of(p).t))

    def __lt__(self, o):
        return SBool(self.t < type(self).of(o).t)

    def __le__(self, o):
        return SBool(self.t <= type(self).of(o).t)

    def __gt__(self, o):
        return SBool(type(self).of(o).t < self.t)

    def __ge__(self, o):
        return SBool(type(self).of(o).t <= self.t)


_PROVER = [None]      # set by the engine: callable(z3 Bool) -> True when the path condition implies it


def _prove(cond):
    c = z3.simplify(cond)
    if z3.is_true(c):
        return True
    if z3.is_false(c):
        return False
    p = _PROVER[0]
    return bool(p and p(c))


def _is_extract(t):
    return z3.is_app(t) and t.decl().kind() == z3.Z3_OP_SEQ_EXTRACT


def _is_empty_lit(t):
    return z3.is_string_value(t) and t.as_string() == ''


def _smart_len(t):
    """Length of a normalised sequence term, as arithmetic where the shape allows it: len(a ++ b) = len a + len b,
    len(substr(s, lo, n)) = n when 0 <= lo, 0 <= n, lo + n <= len(s) is provable on the current path."""
    if z3.is_string_value(t):
        return z3.IntVal(len(t.as_string()))
    if z3.is_app(t) and t.decl().kind() == z3.Z3_OP_SEQ_CONCAT:
        out = None
        for p in _parts(t):
            l = _smart_len(p)
            out = l if out is None else out + l
        return z3.simplify(out)
    if _is_extract(t):
        base, lo, n = t.children()
        if _prove(z3.And(lo >= 0, n >= 0, lo + n <= z3.Length(base))):
            return n
    return z3.Length(t)


def _parts(t):
    """Flatten a (nested) concatenation into its list of parts."""
    if z3.is_app(t) and t.decl().kind() == z3.Z3_OP_SEQ_CONCAT:
        out = []
        for c in t.children():
            out.extend(_parts(c))
        return out
    return [t]


def _join(parts):
    parts = [p for p in parts if not _is_empty_lit(p)]
    if not parts:
        return z3.StringVal('')
    out = parts[0]
    for p in parts[1:]:
        out = z3.Concat(out, p)
    return out


def _substr(t, lo, n):
    """str.substr; nested extractions are flattened with the exact identity (SMT-LIB semantics)
        substr(substr(s,a,n0),b,m) = ite(a>=0 and b>=0, substr(s, a+b, min(m, n0-b)), "")
    and the guard is dropped when the current path condition proves it. Extractions from concatenations drop the
    leading parts that lie wholly before `lo` and the trailing parts wholly after `lo+n` (when provable)."""
    if z3.is_app(t) and t.decl().kind() == z3.Z3_OP_ITE:
        c, x, y = t.children()
        return z3.If(c, _substr(x, lo, n), _substr(y, lo, n))
    if _is_extract(t):
        base, a, n0 = t.children()
        rest = z3.simplify(n0 - lo)
        if _prove(n <= rest):
            m = n
        elif _prove(n >= rest):
            m = rest
        else:
            m = z3.If(n <= rest, n, rest)
        inner = _substr(base, z3.simplify(a + lo), z3.simplify(m))
        cond = z3.And(a >= 0, lo >= 0)
        if _prove(cond):
            return inner
        return z3.If(z3.simplify(cond), inner, z3.StringVal(''))
    if z3.is_app(t) and t.decl().kind() == z3.Z3_OP_SEQ_CONCAT:
        parts = _parts(t)
        lo = z3.simplify(lo)
        n = z3.simplify(n)
        changed = False
        while len(parts) > 1 and _prove(lo >= z3.Length(parts[0])):
            lo = z3.simplify(lo - z3.Length(parts[0]))
            parts = parts[1:]
            changed = True
        # trailing parts that start at or after lo+n contribute nothing
        while len(parts) > 1:
            head_len = z3.simplify(sum((z3.Length(p) for p in parts[:-1]), z3.IntVal(0)))
            if _prove(z3.And(lo >= 0, lo + n <= head_len)):
                parts = parts[:-1]
                changed = True
            else:
                break
        if len(parts) == 1:
            return _substr(parts[0], lo, n)
        total = z3.simplify(sum((z3.Length(p) for p in parts), z3.IntVal(0)))
        if z3.is_int_value(lo) and lo.as_long() == 0 and _prove(n >= total):
            return _join(parts)
        return z3.SubString(_join(parts), lo, n)
    lo_s = z3.simplify(lo) if z3.is_expr(lo) else z3.IntVal(lo)
    if z3.is_int_value(lo_s) and lo_s.as_long() == 0 and _prove(n >= z3.Length(t)):
        return t
    return z3.SubString(t, lo_s, z3.simplify(n))


def _merge_extracts(a, b):
    """substr(s,a1,n1) ++ substr(s,a1+n1,n2) = substr(s,a1,n1+n2) if 0<=a1, 0<=n1, 0<=n2, a1+n1<=len(s)
    (and the whole of s when that covers it); None when the side conditions are not provable."""
    if _is_extract(a) and _is_extract(b):
        s1, a1, n1 = a.children()
        s2, a2, n2 = b.children()
        if s1.eq(s2) and _prove(a2 == a1 + n1) and _prove(z3.And(a1 >= 0, n1 >= 0, n2 >= 0, a1 + n1 <= z3.Length(s1))):
            a1s = z3.simplify(a1)
            if z3.is_int_value(a1s) and a1s.as_long() == 0 and _prove(n1 + n2 >= z3.Length(s1)):
                return s1
            return z3.SubString(s1, a1, z3.simplify(n1 + n2))
    # a whole string followed by / preceded by an empty extraction of anything is handled by the simplifier
    return None


def _concat(a, b):
    """Concatenation, normalised: flattened, adjacent extractions of the same string merged when the path condition
    proves the side conditions."""
    parts = [p for p in _parts(a) + _parts(b) if not _is_empty_lit(p)]
    out = []
    for p in parts:
        if out:
            m = _merge_extracts(out[-1], p)
            if m is not None:
                out[-1] = m
                # the merged extraction may merge again with its new left neighbour
                while len(out) > 1:
                    m2 = _merge_extracts(out[-2], out[-1])
                    if m2 is None:
                        break
                    out[-2:] = [m2]
                continue
        out.append(p)
    return _join(out)


class SStr(_SSeq):
    __slots__ = ()
    _py = str


class SBytes(_SSeq):
    __slots__ = ()
    _py = bytes


def slen(v):
    if isinstance(v, _SSeq):
        return v.length()
    return len(v)


# ----------------------------------------------------------------------------- sets of strings
StrSet = z3.SetSort(z3.StringSort())


class SSet(SV):
    """A set of str (hash keys), as an SMT array String -> Bool. Mutable Python sets are
    modelled by a holder object (engine.MSet) pointing at an immutable SSet value."""
    __slots__ = ()

    @staticmethod
    def empty():
        return SSet(z3.EmptySet(z3.StringSort()))

    @staticmethod
    def fresh(hint='S'):
        return SSet(z3.Const(fresh_name(hint), StrSet))

    def has(self, k):
        return SBool(z3.IsMember(SStr.of(k).t, self.t))

    def add(self, k):
        return SSet(z3.SetAdd(self.t, SStr.of(k).t))

    def remove(self, k):
        return SSet(z3.SetDel(self.t, SStr.of(k).t))

    def union(self, o):
        return SSet(z3.SetUnion(self.t, o.t))

    def inter(self, o):
        return SSet(z3.SetIntersect(self.t, o.t))

    def diff(self, o):
        return SSet(z3.SetDifference(self.t, o.t))

    def subset(self, o):
        return SBool(z3.IsSubset(self.t, o.t))

    def is_empty(self):
        return SBool(self.t == z3.EmptySet(z3.StringSort()))

    def __eq__(self, o):
        if isinstance(o, SSet):
            return SBool(self.t == o.t)
        return SBool(z3.BoolVal(False))

    def __ne__(self, o):
        return b_not(self.__eq__(o))

    __hash__ = SV.__hash__


# ----------------------------------------------------------------------------- helpers
def py_eq(a, b):
    """Python == between arbitrary engine values, returning bool or SBool."""
    if is_sym(a):
        return a.__eq__(b)
    if is_sym(b):
        return b.__eq__(a)
    return a == b


def conc(v):
    """Return the concrete Python value if the symbolic value is a literal, else None."""
    if not is_sym(v):
        return v
    t = z3.simplify(v.t)
    if isinstance(v, SInt) and z3.is_int_value(t):
        return t.as_long()
    if isinstance(v, SBool):
        if z3.is_true(t):
            return True
        if z3.is_false(t):
            return False
    if isinstance(v, _SSeq) and z3.is_string_value(t):
        s = t.as_string()
        return s.encode('latin-1') if isinstance(v, SBytes) else s
    return None
