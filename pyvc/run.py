"""Developer entry point: python3-vt -m pyvc.run <module> [unit-substring]"""
import importlib, sys, json
from .contract import verify_unit

def main():
    mod = importlib.import_module('contracts.' + sys.argv[1])
    pat = sys.argv[2] if len(sys.argv) > 2 else ''
    contracts = {}
    for u in mod.UNITS:
        if not u.mode:
            contracts.setdefault(u.fn, u)
    for m in getattr(mod, 'DEPENDS', []):
        for u in importlib.import_module('contracts.' + m).UNITS:
            if not u.mode:
                contracts.setdefault(u.fn, u)
    for u in mod.UNITS:
        if pat not in u.name or u.trusted:
            continue
        r = verify_unit(u, contracts)
        print(f'== {u.name}: {r.status} {r.reason} paths={r.stats.get("paths")} normal={r.stats.get("normal_exits")} exc={r.stats.get("exc_exits")} solver={r.stats.get("solver_time",0):.2f}s wall={r.wall:.1f}s obligations={len(r.obligations)} ok={sum(o.status=="discharged" for o in r.obligations.values())}')
        for k, ob in sorted(r.obligations.items()):
            flag = {'discharged': 'OK  ', 'failed': 'FAIL', 'unknown': '??  '}[ob.status]
            if ob.status == 'discharged' and ob.witnessed and '-v' not in sys.argv:
                continue
            print(f'   {flag} {k}  paths={ob.paths} {"" if ob.witnessed else "VACUOUS"}')
            for f in ob.failed[:2]:
                print('        path:', f['path'][-8:]); print('        model:', {k: v for k, v in list(f['model'].items())[:14]}); print('        info:', f['info'])
            for f in ob.unknown[:1]:
                print('        unknown:', f['reason'], f['clause'][:200])
        for n in r.notes: print('   note:', n)

if __name__ == '__main__':
    main()
