"""Interpreter for the Python subset of DESIGN.md 2.2 over symbolic values.

Statement execution is written with Python generators so that an interpreted `yield`
suspends naturally (generators, @contextmanager functions); expressions are evaluated by
plain recursion.
"""
from __future__ import annotations

import ast
import os

import z3

from . import engine as E
from .engine import (BoundMethod, BreakSig, CheckerError, Closure, ContinueSig, CtxMgrObj, Dummy, EnumVal, Env, ExcClass,
                     ExcVal, GenObj, MDict, MList, MSet, PathEnd, PyObj, PyRaise, RepoClass, RepoFunc, RepoModule,
                     ReturnSig, _MISSING, _walk_own, raise_py)
from .values import (SV, SBool, SBytes, SInt, SSet, SStr, Unsupported, _SSeq, b_and, b_not, b_or, conc, implies, is_sym,
                     ite, py_eq, slen, smax, smin)

REPO_MODULES = ['exceptions', 'dataclasses', 'utils', 'container', 'backup_utils']


class NamedTupleClass:
    def __init__(self, name, fields):
        self.name = name
        self.fields = list(fields)


class NamedTupleVal:
    def __init__(self, cls, values):
        self.cls = cls
        self.values = list(values)


class BuiltinFn:
    def __init__(self, name, fn):
        self.name = name
        self.fn = fn

    def __repr__(self):
        return f'<builtin {self.name}>'


class Program:
    """All repository modules, parsed from the working tree on every run."""

    def __init__(self, repo=None):
        self.repo = repo or E.REPO
        self.modules = {}
        self.sources = {}
        self.funcs = {}       # qualname -> RepoFunc
        self.classes = {}
        self.skipped_nodes = set()

    def source_path(self, mod):
        return os.path.join(self.repo, 'disk_objectstore', mod + '.py')


class Frame:
    """Accessor handed to loop invariants / contracts: attribute access reads local variables."""

    def __init__(self, env, ghost=None):
        object.__setattr__(self, '_env', env)
        object.__setattr__(self, '_ghost', ghost or {})

    def __getattr__(self, name):
        if getattr(E.cur(), '_instantiating', False):
            raise CheckerError(f'a quantified clause reads the local {name!r} while being instantiated (capture its value first)')
        g = object.__getattribute__(self, '_ghost')
        if name in g:
            return g[name]
        vg = E.cur().ghost
        if name in vg:
            return vg[name]
        v = object.__getattribute__(self, '_env').lookup(name)
        if v is _MISSING:
            # the contract was written for a body that had this local: it does not apply to the code as it is now
            raise Unsupported(f'the contract refers to a local {name!r} that the function does not have (any more)')
        return v

    def __setattr__(self, name, value):
        object.__getattribute__(self, '_env').assign(name, value)

    def has(self, name):
        return object.__getattribute__(self, '_env').lookup(name) is not _MISSING


class LoopTargetAfter:
    """Value of the target variable of an abstractly executed `for` loop after the loop."""

    def __init__(self, prev, model, ghost):
        self.prev, self.model, self.ghost = prev, model, ghost


class Interp:
    def _resolve_loop_target(self, name, v, env):
        vc = self.vc
        if vc.choose(2, label=f'loop_target_after_loop:{name}') == 0:
            # the body never ran
            if hasattr(v.model, 'assume_empty'):
                v.model.assume_empty(vc)
            val = v.prev
            if isinstance(val, LoopTargetAfter):
                val = self._resolve_loop_target(name, val, env)
            if val is _MISSING:
                raise_py('UnboundLocalError', name, origin='loop target read after a loop that never ran')
        else:
            if not hasattr(v.model, 'some_element'):
                raise Unsupported(f'loop target {name!r} read after its loop (no element model)')
            val = v.model.some_element(vc, v.ghost)
        env.assign(name, val)
        return val

    def __init__(self, vc, program, envmodel):
        self.vc = vc
        self.prog = program
        self.em = envmodel
        self.unit = None            # current unit (contract object) under verification
        self.contracts = {}         # qualname -> contract (callee summaries)
        self.depth = 0
        self.call_stack = []
        self.out = None             # ghost output list of the generator under verification
        self.builtins = self._make_builtins()

    # ================================================================== program loading
    def load(self, modules=None):
        for m in (modules or ['exceptions', 'dataclasses', 'utils']):
            self.load_module(m)

    def load_module(self, name):
        if name in self.prog.modules:
            return self.prog.modules[name]
        path = self.prog.source_path(name)
        src = open(path).read()
        self.prog.sources[name] = src
        tree = ast.parse(src, filename=path)
        mod = RepoModule(name)
        self.prog.modules[name] = mod
        env = Env(None, mod.ns)
        mod.env = env
        mod.ns['__name__'] = 'disk_objectstore.' + name
        for _ in self.exec_block(tree.body, env, module=mod):
            raise CheckerError('yield at module level')
        return mod

    # ================================================================== statements
    def exec_block(self, stmts, env, module=None):
        for s in stmts:
            yield from self.exec_stmt(s, env, module)

    def exec_stmt(self, s, env, module=None):
        vc = self.vc
        T = type(s)
        if T is ast.Expr:
            if isinstance(s.value, ast.Yield):
                val = self.eval(s.value.value, env) if s.value.value is not None else None
                yield val
                return
            if isinstance(s.value, ast.Constant):
                return   # docstring
            self.eval(s.value, env)
            return
        if T is ast.Assign:
            if isinstance(s.value, ast.Yield):
                raise Unsupported('value of a yield expression is used')
            v = self.eval(s.value, env)
            for t in s.targets:
                self.assign(t, v, env)
            return
        if T is ast.AnnAssign:
            if s.value is not None:
                self.assign(s.target, self.eval(s.value, env), env)
            elif module is None and getattr(env, 'class_ann', None) is not None and isinstance(s.target, ast.Name):
                env.class_ann.append(s.target.id)
            return
        if T is ast.AugAssign:
            cur = self.eval(_load(s.target), env)
            v = self.binop(s.op, cur, self.eval(s.value, env), s)
            if isinstance(cur, MList) and isinstance(s.op, ast.Add):
                return      # list += ... mutated in place by binop
            self.assign(s.target, v, env)
            return
        if T is ast.If:
            if module is not None and isinstance(s.test, ast.Name) and s.test.id == 'TYPE_CHECKING':
                return
            if vc.branch(self.eval(s.test, env), label=self._lbl(s, 'if')):
                yield from self.exec_block(s.body, env, module)
            else:
                yield from self.exec_block(s.orelse, env, module)
            return
        if T is ast.Return:
            raise ReturnSig(self.eval(s.value, env) if s.value is not None else None)
        if T is ast.Pass:
            return
        if T is ast.Break:
            raise BreakSig()
        if T is ast.Continue:
            raise ContinueSig()
        if T is ast.Raise:
            yield from ()
            self.exec_raise(s, env)
            return
        if T is ast.Assert:
            if not vc.branch(self.eval(s.test, env), label=self._lbl(s, 'assert')):
                raise_py('AssertionError', origin=f'assert@{self._lbl(s, "")}')
            return
        if T is ast.While:
            yield from self.exec_while(s, env)
            return
        if T is ast.For:
            yield from self.exec_for(s, env)
            return
        if T is ast.Try:
            yield from self.exec_try(s, env, module)
            return
        if T is ast.With:
            yield from self.exec_with(s, env, 0)
            return
        if T is ast.FunctionDef:
            self.exec_funcdef(s, env, module)
            return
        if T is ast.ClassDef:
            self.exec_classdef(s, env, module)
            return
        if T in (ast.Import, ast.ImportFrom):
            self.exec_import(s, env, module)
            return
        if T is ast.Delete:
            raise Unsupported('del statement')
        if T is ast.Global or T is ast.Nonlocal:
            raise Unsupported('global/nonlocal')
        raise Unsupported(f'statement {T.__name__}')

    def _lbl(self, node, kind):
        fn = self.call_stack[-1] if self.call_stack else '?'
        return f'{kind}@{fn}:{getattr(node, "lineno", 0)}'

    # ------------------------------------------------------------------ raise
    def exec_raise(self, s, env):
        if s.exc is None:
            cur_exc = env.lookup('__current_exc__')
            if cur_exc is _MISSING:
                raise Unsupported('bare raise outside except')
            raise PyRaise(cur_exc)
        v = self.eval(s.exc, env)
        cause = self.eval(s.cause, env) if s.cause is not None else None
        if isinstance(v, ExcClass):
            v = ExcVal(v, ())
        if not isinstance(v, ExcVal):
            raise Unsupported(f'raise of {v!r}')
        v.cause = cause
        if v.origin is None:
            v.origin = self._lbl(s, 'raise')
        raise PyRaise(v)

    # ------------------------------------------------------------------ try
    def exec_try(self, s, env, module=None):
        pending = None
        try:
            try:
                yield from self.exec_block(s.body, env, module)
            except PyRaise as pr:
                handled = False
                for h in s.handlers:
                    if self.exc_matches(pr.exc, h.type, env):
                        handled = True
                        if h.name:
                            env.assign(h.name, pr.exc)
                        saved = env.vars.get('__current_exc__', _MISSING)
                        env.vars['__current_exc__'] = pr.exc
                        try:
                            yield from self.exec_block(h.body, env, module)
                        finally:
                            if saved is _MISSING:
                                env.vars.pop('__current_exc__', None)
                            else:
                                env.vars['__current_exc__'] = saved
                        break
                if not handled:
                    raise
            else:
                yield from self.exec_block(s.orelse, env, module)
        except (PyRaise, ReturnSig, BreakSig, ContinueSig, GeneratorExit) as sig:
            pending = sig
        # PathEnd / CheckerError / Unsupported propagate without running finally (the path is abandoned)
        if s.finalbody:
            yield from self.exec_block(s.finalbody, env, module)
        if pending is not None:
            raise pending

    def exc_matches(self, exc, typ, env):
        if typ is None:
            return True
        t = self.eval(typ, env)
        ts = t if isinstance(t, tuple) else (t,)
        for c in ts:
            if isinstance(c, ExcClass):
                if exc.cls.issub(c):
                    return True
            elif isinstance(c, RepoClass) and c.name in E.EXC_PARENT:
                if exc.cls.issub(ExcClass(c.name)):
                    return True
            else:
                raise Unsupported(f'except clause with {c!r}')
        return False

    # ------------------------------------------------------------------ with
    def exec_with(self, s, env, idx):
        if idx >= len(s.items):
            yield from self.exec_block(s.body, env)
            return
        item = s.items[idx]
        cm = self.eval(item.context_expr, env)
        val = self.cm_enter(cm)
        if item.optional_vars is not None:
            self.assign(item.optional_vars, val, env)
        try:
            yield from self.exec_with(s, env, idx + 1)
        except PyRaise as pr:
            suppressed = self.cm_exit(cm, pr.exc)
            if not suppressed:
                raise
            return
        except (ReturnSig, BreakSig, ContinueSig, GeneratorExit):
            self.cm_exit(cm, None)
            raise
        self.cm_exit(cm, None)

    def cm_enter(self, cm):
        if isinstance(cm, CtxMgrObj):
            try:
                return next(cm.gen)
            except StopIteration:
                raise Unsupported('a @contextmanager function returned without yielding')
        if isinstance(cm, PyObj):
            return self.call(self.getattr(cm, '__enter__'), [], {})
        if hasattr(cm, 'sym_enter'):
            return cm.sym_enter(self)
        raise Unsupported(f'with over {cm!r}')

    def cm_exit(self, cm, exc):
        """Returns True when the exception is suppressed."""
        if isinstance(cm, CtxMgrObj):
            if exc is None:
                try:
                    next(cm.gen)
                except StopIteration:
                    return False
                raise Unsupported('a @contextmanager function yielded twice')
            try:
                cm.gen.throw(PyRaise(exc))
            except StopIteration:
                return True
            raise Unsupported('a @contextmanager function yielded twice')
        if isinstance(cm, PyObj):
            if exc is None:
                self.call(self.getattr(cm, '__exit__'), [None, None, None], {})
                return False
            r = self.call(self.getattr(cm, '__exit__'), [exc.cls, exc, None], {})
            return bool(self.vc.branch(self.vc.truth(r)))
        if hasattr(cm, 'sym_exit'):
            return bool(cm.sym_exit(self, exc))
        raise Unsupported(f'with over {cm!r}')

    # ------------------------------------------------------------------ loops
    def loop_spec(self, node):
        """Loop contract of `node`: from the contract of the function whose body contains it."""
        fn = self.call_stack[-1] if self.call_stack else None
        func = self.prog.funcs.get(fn)
        if func is None:
            return None
        ordinal = func.loop_ordinals.get(id(node))
        c = self.contracts.get(fn)
        spec = None
        if self.unit is not None and self.unit.fn == fn:
            spec = getattr(self.unit, 'loops', {}).get(ordinal)
        if spec is None and c is not None:
            spec = getattr(c, 'loops', {}).get(ordinal)
        if spec is not None:
            spec.ordinal = ordinal
        return spec

    def _assigned_names(self, node):
        names = set()
        for n in ast.walk(node):
            if isinstance(n, ast.Name) and isinstance(n.ctx, ast.Store):
                names.add(n.id)
        return names

    def _havoc_locals(self, node, env, spec):
        for name in sorted(self._assigned_names(node)):
            if name in getattr(spec, 'keep', ()):
                continue
            v = env.lookup(name)
            if v is _MISSING:
                continue
            if isinstance(v, (SV, int, bool, str, bytes)) and v is not None:
                if isinstance(v, str) and not isinstance(v, SV) and name in getattr(spec, 'concrete', ()):
                    continue
                env.assign(name, self.vc.fresh_like(v, name))
            elif v is None and name in getattr(spec, 'optional', {}):
                env.assign(name, spec.optional[name](self.vc))
            # other kinds of values (objects, lists, sets) are havocked by spec.havoc
        if getattr(spec, 'havoc', None):
            spec.havoc(self.vc, Frame(env))

    def _check_inv(self, spec, env, when, ghost=None):
        fn = self.call_stack[-1]
        for name, f in spec.inv(self.vc, Frame(env, ghost)):
            self.vc.check(f'{fn}:loop{spec.ordinal}:{name}@{when}', f)

    def _assume_inv(self, spec, env, ghost=None):
        for name, f in spec.inv(self.vc, Frame(env, ghost)):
            self.vc.assume(f)

    def exec_while(self, s, env):
        vc = self.vc
        spec = self.loop_spec(s)
        if spec is None:
            raise Unsupported(f'while loop without invariant at {self._lbl(s, "while")}')
        self._check_inv(spec, env, 'entry')
        self._havoc_locals(s, env, spec)
        self._assume_inv(spec, env)
        which = vc.choose(2, label=self._lbl(s, 'loop'))
        if which == 0:
            # an arbitrary iteration
            if not vc.branch(self.eval(s.test, env), label=self._lbl(s, 'guard')):
                raise PathEnd()
            try:
                yield from self.exec_block(s.body, env)
            except ContinueSig:
                pass
            except BreakSig:
                return          # leave the loop with the current state
            self._check_inv(spec, env, 'preserved')
            vc.stats['cut'] += 1
            raise PathEnd()
        # loop exit by guard
        if vc.branch(self.eval(s.test, env), label=self._lbl(s, 'guard')):
            raise PathEnd()
        if s.orelse:
            yield from self.exec_block(s.orelse, env)

    def exec_for(self, s, env):
        vc = self.vc
        it = self.eval(s.iter, env)
        spec = self.loop_spec(s)
        items = self.concrete_items(it) if spec is None else None
        if spec is None and items is None and isinstance(it, GenObj):
            # inline iteration of an interpreted generator (terminates only if it does concretely)
            broke = False
            while True:
                try:
                    x = next(it.pygen)
                except StopIteration:
                    break
                self.assign(s.target, x, env)
                try:
                    yield from self.exec_block(s.body, env)
                except ContinueSig:
                    continue
                except BreakSig:
                    broke = True
                    it.pygen.close()
                    break
            if not broke and s.orelse:
                yield from self.exec_block(s.orelse, env)
            return
        if items is not None:
            broke = False
            for x in items:
                self.assign(s.target, x, env)
                try:
                    yield from self.exec_block(s.body, env)
                except ContinueSig:
                    continue
                except BreakSig:
                    broke = True
                    break
            if not broke and s.orelse:
                yield from self.exec_block(s.orelse, env)
            return
        if spec is None:
            raise Unsupported(f'for loop over abstract iterable without invariant at {self._lbl(s, "for")}')
        model = self.iter_model(it)
        ghost = model.start(vc)
        before_loop_target = env.lookup(s.target.id) if isinstance(s.target, ast.Name) else _MISSING
        self._check_inv(spec, env, 'entry', ghost)
        self._havoc_locals(s, env, spec)
        ghost = model.havoc(vc, ghost)
        self._assume_inv(spec, env, ghost)
        which = vc.choose(2, label=self._lbl(s, 'loop'))
        if which == 0:
            x, ghost2 = model.step(vc, ghost)       # assumes "not exhausted"
            self.assign(s.target, x, env)
            ghost_cur = dict(ghost)
            ghost_cur['x'] = x
            env.vars['__loop_ghost__'] = ghost_cur
            try:
                yield from self.exec_block(s.body, env)
            except ContinueSig:
                pass
            except BreakSig:
                return
            self._check_inv(spec, env, 'preserved', ghost2)
            vc.stats['cut'] += 1
            raise PathEnd()
        model.finish(vc, ghost)                      # assumes "exhausted"
        if isinstance(s.target, ast.Name):
            # after the loop the target is the last element visited, or what it was before when the body never ran;
            # resolved (by a path split) only if the code reads it
            env.assign(s.target.id, LoopTargetAfter(before_loop_target, model, ghost))
        env.vars['__loop_ghost__'] = ghost
        if getattr(spec, 'at_exit', None):
            spec.at_exit(vc, Frame(env, ghost))
        if s.orelse:
            yield from self.exec_block(s.orelse, env)

    def concrete_items(self, it):
        if isinstance(it, (list, tuple)):
            return list(it)
        if isinstance(it, MList) and it.items is not None:
            return list(it.items)
        if isinstance(it, MDict):
            return [k for k, _ in it.pairs]
        if isinstance(it, (str, bytes)) and not is_sym(it):
            return list(it)
        if isinstance(it, range):
            return list(it)
        if hasattr(it, 'concrete_items'):
            return it.concrete_items()
        return None

    def iter_model(self, it):
        if isinstance(it, MSet):
            return self.em.SetIterModel(it.s)
        if isinstance(it, MList) and it.items is None and 'elems' in it.g:
            return self.em.ElemsIterModel(it.g['elems'], distinct=it.g.get('distinct'))
        if hasattr(it, 'iter_model'):
            return it.iter_model(self)
        raise Unsupported(f'no iteration model for {it!r}')

    # ------------------------------------------------------------------ definitions
    def exec_funcdef(self, s, env, module):
        if module is not None:
            q = f'{module.name}:{s.name}'
            f = RepoFunc(s, module, q, env)
            if f.is_overload:
                return
            self._register_func(f)
            env.assign(s.name, f)
        else:
            env.assign(s.name, Closure(s, env, s.name))

    def _register_func(self, f):
        self.prog.funcs[f.qualname] = f
        loops = [n for n in _walk_own(f.node) if isinstance(n, (ast.For, ast.While))]
        loops.sort(key=lambda n: (n.lineno, n.col_offset))
        f.loop_ordinals = {id(n): i for i, n in enumerate(loops)}
        f.loops = loops

    def exec_classdef(self, s, env, module):
        if module is None:
            raise Unsupported('nested class')
        bases = [self.eval(b, env) for b in s.bases]
        if any(isinstance(b, ExcClass) for b in bases):
            env.assign(s.name, ExcClass(s.name))
            return
        cls = RepoClass(s.name, module, bases)
        cenv = Env(env, {})
        cenv.class_ann = []
        for st in s.body:
            if isinstance(st, ast.FunctionDef):
                f = RepoFunc(st, module, f'{module.name}:{s.name}.{st.name}', env, cls)
                if f.is_overload:
                    continue
                self._register_func(f)
                cls.attrs[st.name] = f
            elif isinstance(st, ast.Expr) and isinstance(st.value, ast.Constant):
                continue
            elif isinstance(st, ast.Pass):
                continue
            else:
                for _ in self.exec_stmt(st, cenv, None):
                    raise CheckerError('yield in class body')
        for k, v in cenv.vars.items():
            if cls.is_enum and not k.startswith('_') and not isinstance(v, (RepoFunc,)):
                cls.attrs[k] = EnumVal(cls, k, v)
            else:
                cls.attrs[k] = v
        cls.ann_fields = cenv.class_ann
        cls.is_dataclass = any('dataclass' in ast.unparse(d) for d in s.decorator_list)
        self.prog.classes[f'{module.name}:{s.name}'] = cls
        env.assign(s.name, cls)

    def exec_import(self, s, env, module):
        if isinstance(s, ast.Import):
            for a in s.names:
                env.assign(a.asname or a.name.split('.')[0], self.em.import_module(self, a.name))
            return
        modname = s.module or ''
        if s.level > 0:
            if modname in REPO_MODULES:
                m = self.load_module(modname)
                for a in s.names:
                    v = m.ns.get(a.name, _MISSING)
                    if v is _MISSING:
                        raise CheckerError(f'{modname}.{a.name} not found')
                    env.assign(a.asname or a.name, v)
                return
            m = self.em.import_module(self, 'disk_objectstore.' + modname)
        else:
            if modname == '__future__':
                return
            m = self.em.import_module(self, modname)
        for a in s.names:
            env.assign(a.asname or a.name, self.getattr(m, a.name))

    # ================================================================== assignment
    def assign(self, target, v, env):
        T = type(target)
        if T is ast.Name:
            env.assign(target.id, v)
        elif T is ast.Attribute:
            obj = self.eval(target.value, env)
            self.setattr(obj, target.attr, v)
        elif T in (ast.Tuple, ast.List):
            vals = self.unpack(v, len(target.elts))
            for t, x in zip(target.elts, vals):
                self.assign(t, x, env)
        elif T is ast.Subscript:
            obj = self.eval(target.value, env)
            idx = self.eval(target.slice, env)
            self.setitem(obj, idx, v)
        else:
            raise Unsupported(f'assignment target {T.__name__}')

    def unpack(self, v, n):
        if isinstance(v, (tuple, list)):
            items = list(v)
        elif isinstance(v, MList) and v.items is not None:
            items = v.items
        elif isinstance(v, NamedTupleVal):
            items = v.values
        elif hasattr(v, 'unpack'):
            items = v.unpack(self, n)
        else:
            raise Unsupported(f'cannot unpack {v!r}')
        if len(items) != n:
            raise_py('ValueError', 'unpack')
        return items

    def setattr(self, obj, name, v):
        if isinstance(obj, PyObj):
            obj.f[name] = v
        elif hasattr(obj, 'sym_setattr'):
            obj.sym_setattr(self, name, v)
        else:
            raise Unsupported(f'setattr on {obj!r}')

    def setitem(self, obj, idx, v):
        if isinstance(obj, MDict):
            for i, (k, _) in enumerate(obj.pairs):
                eq = py_eq(k, idx)
                if eq is True:
                    obj.pairs[i] = (k, v)
                    return
                if eq is not False:
                    raise Unsupported('dict store with symbolic key aliasing')
            obj.pairs.append((idx, v))
        elif hasattr(obj, 'sym_setitem'):
            obj.sym_setitem(self, idx, v)
        else:
            raise Unsupported(f'item assignment on {obj!r}')

    # ================================================================== expressions
    def eval(self, n, env):
        T = type(n)
        m = getattr(self, 'e_' + T.__name__, None)
        if m is None:
            raise Unsupported(f'expression {T.__name__}')
        return m(n, env)

    def e_Constant(self, n, env):
        v = n.value
        if type(v) is int and v >= 65536:
            # chunk / buffer sizes: generalised to an arbitrary positive integer (one symbol per literal value).
            # A proof for every K >= 1 covers the literal; z3's sequence solver cannot work with length bounds
            # of this magnitude.  Code that relies on the actual magnitude becomes undecided, never unsound.
            return self.vc.big_const(v)
        return v

    def e_Name(self, n, env):
        v = env.lookup(n.id)
        if isinstance(v, LoopTargetAfter):
            v = self._resolve_loop_target(n.id, v, env)
        if v is _MISSING:
            v = self.builtins.get(n.id, _MISSING)
            if v is _MISSING:
                if n.id in E.EXC_PARENT:
                    return ExcClass(n.id)
                raise Unsupported(f'unknown name {n.id!r} (possibly unbound local) at {self._lbl(n, "name")}')
        return v

    def e_Attribute(self, n, env):
        return self.getattr(self.eval(n.value, env), n.attr)

    def e_Tuple(self, n, env):
        return tuple(self.eval(e, env) for e in n.elts)

    def e_List(self, n, env):
        return MList([self.eval(e, env) for e in n.elts])

    def e_Set(self, n, env):
        s = SSet.empty()
        for e in n.elts:
            s = s.add(self.eval(e, env))
        return MSet(s)

    def e_Dict(self, n, env):
        pairs = []
        for k, v in zip(n.keys, n.values):
            if k is None:
                raise Unsupported('dict unpacking in display')
            pairs.append((self.eval(k, env), self.eval(v, env)))
        return MDict(pairs)

    def e_JoinedStr(self, n, env):
        parts = []
        for v in n.values:
            if isinstance(v, ast.Constant):
                parts.append(v.value)
            else:
                x = self.eval(v.value, env)
                parts.append(self.to_str(x))
        if any(isinstance(p, (self.em.IntStr, self.em.StrCat)) for p in parts):
            flat = []
            for p in parts:
                flat.extend(p.parts if isinstance(p, self.em.StrCat) else [p])
            return self.em.StrCat([p for p in flat if not (isinstance(p, str) and p == '')])
        out = ''
        for p in parts:
            if is_sym(out) or is_sym(p):
                out = SStr.of(out) + SStr.of(p)
            else:
                out = out + p
        return out

    def to_str(self, x):
        if isinstance(x, (str, SStr)):
            return x
        if isinstance(x, bool) or x is None:
            return str(x)
        if isinstance(x, int):
            return str(x)
        if isinstance(x, SInt):
            c = conc(x)
            if c is not None:
                return str(c)
            return self.em.int_to_str(x)
        if hasattr(x, 'sym_str'):
            return x.sym_str(self)
        # message text of exceptions etc.: opaque
        return SStr.fresh('text')

    def e_BoolOp(self, n, env):
        vc = self.vc
        is_and = isinstance(n.op, ast.And)
        v = None
        for i, e in enumerate(n.values):
            v = self.eval(e, env)
            if i == len(n.values) - 1:
                return v
            t = vc.branch(v, label=self._lbl(n, 'and' if is_and else 'or'))
            if is_and and not t:
                return v
            if not is_and and t:
                return v
        return v

    def e_UnaryOp(self, n, env):
        v = self.eval(n.operand, env)
        if isinstance(n.op, ast.Not):
            t = self.vc.truth(v)
            return (not t) if isinstance(t, bool) else b_not(t)
        if isinstance(n.op, ast.USub):
            return -v
        raise Unsupported('unary op')

    def e_BinOp(self, n, env):
        return self.binop(n.op, self.eval(n.left, env), self.eval(n.right, env), n)

    def binop(self, op, a, b, node=None):
        T = type(op)
        if hasattr(a, 'sym_binop'):
            return a.sym_binop(self, T.__name__, b)
        if hasattr(b, 'sym_rbinop'):
            return b.sym_rbinop(self, T.__name__, a)
        if T is ast.Add:
            if isinstance(a, MList):
                if isinstance(b, (MList, tuple, list)):
                    bi = b.items if isinstance(b, MList) else list(b)
                    if a.items is not None and bi is not None:
                        # `x += y` on lists mutates in place; `x + y` builds a new one. We mutate for
                        # AugAssign (handled by caller ignoring the result) and copy otherwise.
                        if isinstance(node, ast.AugAssign):
                            a.items.extend(bi)
                            return a
                        return MList(a.items + bi)
                    if hasattr(self.em, 'list_concat'):
                        return self.em.list_concat(self, a, b, inplace=isinstance(node, ast.AugAssign))
                raise Unsupported('list + non-list')
            if isinstance(a, tuple) and isinstance(b, tuple):
                return a + b
            return a + b
        if T is ast.Sub:
            return a - b
        if T is ast.Mult:
            if isinstance(a, (bytes, SBytes)) and isinstance(b, (int, SInt)):
                return self.em.bytes_repeat(self, a, b)
            r = a * b
            if type(r) is int and r >= 65536 and type(a) is int and type(b) is int:
                return self.vc.big_const(r)       # e.g. 256 * 1024: a chunk size, generalised like the large literals
            return r
        if T is ast.FloorDiv:
            if is_sym(b):
                # division by a symbolic divisor: over-approximated (sound for safety): only sign/magnitude facts are kept
                bz = SInt.of(b)
                if self.vc.branch(bz == 0, label='divzero'):
                    raise_py('ZeroDivisionError', origin='floor division')
                r = SInt.fresh('quot')
                az = SInt.of(a)
                self.vc.assume(implies(b_and(az >= 0, bz > 0), b_and(r >= 0, r <= az)))
                self.vc.note('floor division by a symbolic divisor over-approximated')
                return r
            if not is_sym(a) and b == 0:
                raise_py('ZeroDivisionError')
            return a // b
        if T is ast.Mod:
            if isinstance(a, (str, SStr)):
                return SStr.fresh('fmt')
            return a % b
        if T is ast.Div:
            return self.em.real_div(self, a, b)
        if T is ast.BitOr:
            if isinstance(a, Dummy) or isinstance(b, Dummy):
                return Dummy('union')
        raise Unsupported(f'binary operator {T.__name__}')

    def e_Compare(self, n, env):
        left = self.eval(n.left, env)
        result = None
        for op, r in zip(n.ops, n.comparators):
            right = self.eval(r, env)
            c = self.compare(op, left, right)
            if result is None:
                result = c
            else:
                # chained comparison: short-circuit
                if isinstance(result, bool):
                    result = c if result else False
                else:
                    result = b_and(result, c)
            if result is False:
                return False
            left = right
        return result

    def compare(self, op, a, b):
        T = type(op)
        if T is ast.Is or T is ast.IsNot:
            if a is None or b is None:
                r = (a is None and b is None)
            elif isinstance(a, (bool, SBool)) and isinstance(b, (bool, SBool)):
                r = py_eq(a, b)      # True/False singletons
            elif isinstance(a, EnumVal) and isinstance(b, EnumVal):
                r = a is b
            else:
                r = a is b
            if T is ast.IsNot:
                return (not r) if isinstance(r, bool) else b_not(r)
            return r
        if T is ast.Eq or T is ast.NotEq:
            r = self.equals(a, b)
            if T is ast.NotEq:
                return (not r) if isinstance(r, bool) else b_not(r)
            return r
        if T in (ast.Lt, ast.LtE, ast.Gt, ast.GtE):
            if hasattr(a, 'sym_cmp'):
                return a.sym_cmp(self, T.__name__, b)
            if a is None or b is None:
                raise_py('TypeError', 'ordering with None')
            if T is ast.Lt:
                return a < b
            if T is ast.LtE:
                return a <= b
            if T is ast.Gt:
                return a > b
            return a >= b
        if T is ast.In or T is ast.NotIn:
            r = self.contains(b, a)
            if T is ast.NotIn:
                return (not r) if isinstance(r, bool) else b_not(r)
            return r
        raise Unsupported(f'comparison {T.__name__}')

    def equals(self, a, b):
        if hasattr(a, 'sym_eq'):
            return a.sym_eq(self, b)
        if hasattr(b, 'sym_eq'):
            return b.sym_eq(self, a)
        if isinstance(a, EnumVal) or isinstance(b, EnumVal):
            return a is b
        if isinstance(a, tuple) and isinstance(b, tuple):
            if len(a) != len(b):
                return False
            return self._all([self.equals(x, y) for x, y in zip(a, b)])
        if a is None or b is None:
            return a is None and b is None
        if isinstance(a, (MList,)) or isinstance(b, (MList,)):
            if isinstance(a, MList) and isinstance(b, MList) and a.items is not None and b.items is not None:
                if len(a.items) != len(b.items):
                    return False
                return self._all([self.equals(x, y) for x, y in zip(a.items, b.items)])
            raise Unsupported('equality on abstract lists')
        if isinstance(a, (PyObj, RepoClass, RepoFunc, ExcClass)) or isinstance(b, (PyObj, RepoClass, RepoFunc)):
            return a is b or a == b
        # bytes vs str never equal in Python
        if isinstance(a, (bytes, SBytes)) and isinstance(b, (str, SStr)):
            return False
        if isinstance(a, (str, SStr)) and isinstance(b, (bytes, SBytes)):
            return False
        return py_eq(a, b)

    def _all(self, xs):
        if any(x is False for x in xs):
            return False
        sym = [x for x in xs if not isinstance(x, bool)]
        if not sym:
            return True
        return b_and(*sym)

    def _any(self, xs):
        if any(x is True for x in xs):
            return True
        sym = [x for x in xs if not isinstance(x, bool)]
        if not sym:
            return False
        return b_or(*sym)

    def contains(self, container, x):
        if isinstance(container, MSet):
            return container.s.has(x)
        if isinstance(container, SSet):
            return container.has(x)
        if isinstance(container, (list, tuple)):
            return self._any([self.equals(x, y) for y in container])
        if isinstance(container, MList):
            if container.items is not None:
                return self._any([self.equals(x, y) for y in container.items])
            if 'elems' in container.g:
                return container.g['elems'].has(x)
            raise Unsupported('membership in abstract list')
        if isinstance(container, MDict):
            return self._any([self.equals(x, k) for k, _ in container.pairs])
        if isinstance(container, (str, bytes)) and not is_sym(x):
            return x in container
        if isinstance(container, (str, SStr)):
            return SStr.of(container).contains(x)
        if isinstance(container, (bytes, SBytes)):
            return SBytes.of(container).contains(x)
        if hasattr(container, 'sym_contains'):
            return container.sym_contains(self, x)
        raise Unsupported(f'membership test in {container!r}')

    def e_IfExp(self, n, env):
        if self.vc.branch(self.eval(n.test, env), label=self._lbl(n, 'ifexp')):
            return self.eval(n.body, env)
        return self.eval(n.orelse, env)

    def e_Lambda(self, n, env):
        return Closure(n, env)

    def e_Subscript(self, n, env):
        obj = self.eval(n.value, env)
        if isinstance(n.slice, ast.Slice):
            lo = self.eval(n.slice.lower, env) if n.slice.lower is not None else None
            hi = self.eval(n.slice.upper, env) if n.slice.upper is not None else None
            st = self.eval(n.slice.step, env) if n.slice.step is not None else None
            return self.getslice(obj, lo, hi, st)
        idx = self.eval(n.slice, env)
        return self.getitem(obj, idx)

    def getslice(self, obj, lo, hi, st):
        if st is not None:
            if st == -1 and lo is None and hi is None:
                if isinstance(obj, MList) and obj.items is not None:
                    return MList(obj.items[::-1])
                if hasattr(obj, 'sym_reversed'):
                    return obj.sym_reversed(self)
            raise Unsupported('slice step')
        if isinstance(obj, (str, bytes, tuple)) and not is_sym(lo) and not is_sym(hi):
            return obj[lo:hi]
        if isinstance(obj, MList) and obj.items is not None and not is_sym(lo) and not is_sym(hi):
            return MList(obj.items[lo:hi])
        if isinstance(obj, (str, bytes, _SSeq)):
            s = SBytes.of(obj) if isinstance(obj, (bytes, SBytes)) else SStr.of(obj)
            for b in (lo, hi):
                if b is not None:
                    self.require_internal('slice_bound_nonneg', SInt.of(b) >= 0)
            return s.slice(lo, hi)
        if hasattr(obj, 'sym_getslice'):
            return obj.sym_getslice(self, lo, hi)
        raise Unsupported(f'slice of {obj!r}')

    def require_internal(self, what, f):
        """A semantic side condition of the encoding. Not holding = outside the encoded subset."""
        vc = self.vc
        t = z3.simplify(SBool.of(f).t)
        if z3.is_true(t):
            return
        r = vc._check_sat(z3.Not(t))
        if r != z3.unsat:
            raise Unsupported(f'encoding side condition {what} not provable at {self.call_stack[-1] if self.call_stack else "?"}')

    def getitem(self, obj, idx):
        if isinstance(obj, MDict):
            conds = []
            for k, v in obj.pairs:
                eq = self.equals(k, idx)
                if eq is True:
                    return v
                if eq is False:
                    continue
                if self.vc.branch(eq, label='dictkey'):
                    return v
            raise_py('KeyError', idx, origin='dict lookup')
        if isinstance(obj, (tuple, list)):
            i = conc(idx)
            if i is None:
                raise Unsupported('symbolic tuple index')
            try:
                return obj[i]
            except IndexError:
                raise_py('IndexError')
        if isinstance(obj, MList):
            if obj.items is not None:
                i = conc(idx)
                if i is None:
                    raise Unsupported('symbolic list index')
                try:
                    return obj.items[i]
                except IndexError:
                    raise_py('IndexError')
            if hasattr(self.em, 'abs_list_getitem'):
                return self.em.abs_list_getitem(self, obj, idx)
        if isinstance(obj, NamedTupleVal):
            return obj.values[conc(idx)]
        if isinstance(obj, (str, bytes)) and not is_sym(idx):
            try:
                return obj[idx]
            except IndexError:
                raise_py('IndexError')
        if isinstance(obj, (str, SStr)):
            i = SInt.of(idx)
            s = SStr.of(obj)
            if not self.vc.branch(b_and(i >= 0, i < s.length()), label='stridx'):
                raise Unsupported('string index out of range / negative')
            return s.slice(i, i + 1)
        if isinstance(obj, Dummy):
            return Dummy(obj.name + '[]')
        if isinstance(obj, PyObj):
            return self.call(self.getattr(obj, '__getitem__'), [idx], {})
        if hasattr(obj, 'sym_getitem'):
            return obj.sym_getitem(self, idx)
        raise Unsupported(f'subscript of {obj!r}')

    def e_ListComp(self, n, env):
        r = self._comp(n, env)
        return MList(r) if isinstance(r, list) else r      # (an abstract source may answer with an abstract collection)

    def e_GeneratorExp(self, n, env):
        r = self._comp(n, env)
        return MList(r) if isinstance(r, list) else r

    def e_SetComp(self, n, env):
        items = self._comp(n, env)
        if not isinstance(items, list):
            return items                 # (an abstract source may answer with an abstract collection)
        s = SSet.empty()
        for x in items:
            s = s.add(x)
        return MSet(s)

    def e_DictComp(self, n, env):
        if len(n.generators) != 1:
            raise Unsupported('nested comprehension')
        g = n.generators[0]
        it = self.concrete_items(self.eval(g.iter, env))
        if it is None:
            raise Unsupported('dict comprehension over abstract iterable')
        pairs = []
        cenv = Env(env, {})
        for x in it:
            self.assign(g.target, x, cenv)
            if all(self.vc.branch(self.eval(c, cenv)) for c in g.ifs):
                pairs.append((self.eval(n.key, cenv), self.eval(n.value, cenv)))
        return MDict(pairs)

    def _comp(self, n, env):
        if len(n.generators) != 1:
            raise Unsupported('nested comprehension')
        g = n.generators[0]
        src = self.eval(g.iter, env)
        it = self.concrete_items(src)
        if it is None:
            if hasattr(src, 'sym_comprehension'):
                return src.sym_comprehension(self, n, g, env)
            raise Unsupported(f'comprehension over abstract iterable {src!r}')
        out = []
        cenv = Env(env, {})
        for x in it:
            self.assign(g.target, x, cenv)
            ok = True
            for c in g.ifs:
                if not self.vc.branch(self.eval(c, cenv), label=self._lbl(n, 'compif')):
                    ok = False
                    break
            if ok:
                out.append(self.eval(n.elt, cenv))
        return out

    def e_Starred(self, n, env):
        raise Unsupported('starred expression')

    # ================================================================== attribute access
    def getattr(self, obj, name):
        if isinstance(obj, PyObj):
            if name in obj.f:
                return obj.f[name]
            a = obj.cls.lookup(name)
            if a is _MISSING:
                if name == '__class__':
                    return obj.cls
                raise_py('AttributeError', name, origin=f'{obj.cls.name}.{name}')
            if isinstance(a, RepoFunc):
                if a.is_property:
                    return self.call_func(a, [obj], {})
                if a.is_static:
                    return a
                if a.is_classmethod:
                    return BoundMethod(obj.cls, a)
                return BoundMethod(obj, a)
            return a
        if isinstance(obj, RepoClass):
            a = obj.lookup(name)
            if a is _MISSING:
                if name == '__name__':
                    return obj.name
                raise_py('AttributeError', name)
            if isinstance(a, RepoFunc) and a.is_classmethod:
                return BoundMethod(obj, a)
            return a
        if isinstance(obj, RepoModule):
            v = obj.ns.get(name, _MISSING)
            if v is _MISSING:
                raise_py('AttributeError', name)
            return v
        if isinstance(obj, EnumVal):
            if name == 'value':
                return obj.value
            if name == 'name':
                return obj.name
        if isinstance(obj, ExcVal):
            if name == 'args':
                return obj.args
        if isinstance(obj, NamedTupleVal):
            if name in obj.cls.fields:
                return obj.values[obj.cls.fields.index(name)]
        if isinstance(obj, Dummy):
            return Dummy(f'{obj.name}.{name}')
        if hasattr(obj, 'sym_getattr'):
            return obj.sym_getattr(self, name)
        m = self.em.method_of(self, obj, name)
        if m is not None:
            return m
        raise Unsupported(f'attribute {name!r} of {obj!r}')

    def hasattr(self, obj, name):
        if obj is None:
            return name in ('__class__', '__doc__', '__eq__', '__hash__', '__bool__')
        try:
            self.getattr(obj, name)
            return True
        except PyRaise as pr:
            if pr.exc.cls.name == 'AttributeError':
                return False
            raise

    # ================================================================== calls
    def e_Call(self, n, env):
        fn = self.eval(n.func, env)
        args = []
        for a in n.args:
            if isinstance(a, ast.Starred):
                v = self.eval(a.value, env)
                items = self.concrete_items(v)
                if items is None:
                    if hasattr(v, 'sym_star'):
                        args.append(E.Dummy('*'))   # placeholder, handled by callee model
                        args[-1] = ('*', v)
                        continue
                    raise Unsupported('star-args over abstract iterable')
                args.extend(items)
            else:
                args.append(self.eval(a, env))
        kwargs = {}
        for k in n.keywords:
            if k.arg is None:
                v = self.eval(k.value, env)
                if isinstance(v, MDict):
                    for kk, vv in v.pairs:
                        kwargs[conc(kk)] = vv
                else:
                    raise Unsupported('**kwargs of abstract value')
            else:
                kwargs[k.arg] = self.eval(k.value, env)
        self._call_node = n
        return self.call(fn, args, kwargs)

    def call(self, fn, args, kwargs):
        if isinstance(fn, BoundMethod):
            return self.call_func(fn.func, [fn.obj] + list(args), kwargs)
        if isinstance(fn, RepoFunc):
            return self.call_func(fn, list(args), kwargs)
        if isinstance(fn, Closure):
            return self.call_closure(fn, list(args), kwargs)
        if isinstance(fn, BuiltinFn):
            return fn.fn(self, *args, **kwargs)
        if isinstance(fn, RepoClass):
            return self.instantiate(fn, list(args), kwargs)
        if isinstance(fn, ExcClass):
            return ExcVal(fn, tuple(args))
        if isinstance(fn, NamedTupleClass):
            vals = list(args) + [kwargs[f] for f in fn.fields[len(args):]]
            return NamedTupleVal(fn, vals)
        if isinstance(fn, Dummy):
            return Dummy(fn.name + '()')
        if hasattr(fn, 'sym_call'):
            return fn.sym_call(self, args, kwargs)
        if callable(fn):
            return fn(self, *args, **kwargs)
        raise Unsupported(f'call of {fn!r}')

    def instantiate(self, cls, args, kwargs):
        if cls.is_enum:
            raise Unsupported('Enum lookup by value')
        obj = PyObj(cls)
        init = cls.lookup('__init__')
        if init is _MISSING:
            if getattr(cls, 'is_dataclass', False):
                fields = cls.ann_fields
                vals = list(args)
                for f in fields[len(vals):]:
                    if f not in kwargs:
                        raise_py('TypeError', f'missing {f}')
                    vals.append(kwargs[f])
                if len(vals) != len(fields) or any(k not in fields for k in kwargs):
                    raise_py('TypeError', 'dataclass args')
                for f, v in zip(fields, vals):
                    obj.f[f] = v
                return obj
            if args or kwargs:
                raise_py('TypeError', 'no __init__')
            return obj
        self.call_func(init, [obj] + args, kwargs)
        return obj

    def bind(self, node_args, defaults_env, args, kwargs, fname):
        a = node_args
        env_vars = {}
        params = [p.arg for p in a.posonlyargs + a.args]
        defaults = a.defaults
        ndef = len(defaults)
        if len(args) > len(params):
            if a.vararg is None:
                raise_py('TypeError', f'{fname}: too many positional arguments')
            env_vars[a.vararg.arg] = tuple(args[len(params):])
            args = args[:len(params)]
        elif a.vararg is not None:
            env_vars[a.vararg.arg] = ()
        for p, v in zip(params, args):
            env_vars[p] = v
        kwargs = dict(kwargs)
        for i, p in enumerate(params):
            if p in env_vars:
                if p in kwargs:
                    raise_py('TypeError', f'{fname}: multiple values for {p}')
                continue
            if p in kwargs:
                env_vars[p] = kwargs.pop(p)
            else:
                di = i - (len(params) - ndef)
                if di < 0:
                    raise_py('TypeError', f'{fname}: missing argument {p}')
                env_vars[p] = self.eval(defaults[di], defaults_env)
        for p, d in zip(a.kwonlyargs, a.kw_defaults):
            if p.arg in kwargs:
                env_vars[p.arg] = kwargs.pop(p.arg)
            elif d is not None:
                env_vars[p.arg] = self.eval(d, defaults_env)
            else:
                raise_py('TypeError', f'{fname}: missing kw-only {p.arg}')
        if kwargs:
            if a.kwarg is None:
                raise_py('TypeError', f'{fname}: unexpected keyword {sorted(kwargs)}')
            env_vars[a.kwarg.arg] = MDict(list(kwargs.items()))
        elif a.kwarg is not None:
            env_vars[a.kwarg.arg] = MDict([])
        return env_vars

    def call_closure(self, c, args, kwargs):
        node = c.node
        vars_ = self.bind(node.args, c.env, args, kwargs, c.name)
        env = Env(c.env, vars_)
        if isinstance(node, ast.Lambda):
            return self.eval(node.body, env)
        if c.is_gen:
            return GenObj(self._gen_runner(node.body, env, c.name), c.name)
        return self._run_body(node.body, env)

    def _run_body(self, body, env):
        try:
            for _ in self.exec_block(body, env):
                raise CheckerError('unexpected yield in a non-generator function')
        except ReturnSig as r:
            return r.value
        return None

    def _gen_runner(self, body, env, name):
        pushed = False
        try:
            yield from self.exec_block(body, env)
        except ReturnSig:
            return

    def policy(self, f):
        """'body' | 'contract' for a call to repository function f."""
        q = f.qualname
        u = self.unit
        if u is not None:
            if q in getattr(u, 'inline', ()):
                return 'body'
            if q == u.fn and self.depth == 0:
                return 'body'
        if q in self.contracts and not getattr(self.contracts[q], 'verify_only', False):
            return 'contract'
        if q in self.em.ALWAYS_INLINE or f.is_abstract:
            return 'body'
        if u is not None and q in getattr(u, 'inline_prefix', ()):
            return 'body'
        # a call the contract of this unit does not know about (e.g. added by a change to the function): the unit is
        # undecided -- it is neither inlined silently nor reported as a failure of the checker
        raise Unsupported(f'callee {q} has neither a contract nor an inline permission (unit {u.fn if u else None})')

    def call_func(self, f, args, kwargs):
        pol = self.policy(f)
        if pol == 'contract':
            return self.contracts[f.qualname].apply(self, f, args, kwargs)
        return self.run_func(f, args, kwargs)

    def run_func(self, f, args, kwargs):
        vars_ = self.bind(f.node.args, f.env, args, kwargs, f.qualname)
        env = Env(f.env, vars_)
        if f.is_gen:
            g = GenObj(self._tracked_gen(f, env), f.qualname)
            if f.is_ctxmgr:
                return CtxMgrObj(g.pygen)
            return g
        self.call_stack.append(f.qualname)
        self.depth += 1
        try:
            return self._run_body(f.node.body, env)
        finally:
            self.depth -= 1
            self.call_stack.pop()

    def _tracked_gen(self, f, env):
        """Run a generator function body; the call stack entry is pushed around every resumption."""
        inner = self.exec_block(f.node.body, env)
        sendval = None
        throw = None
        while True:
            self.call_stack.append(f.qualname)
            self.depth += 1
            try:
                if throw is not None:
                    t, throw = throw, None
                    v = inner.throw(t)
                else:
                    v = next(inner)
            except StopIteration:
                return
            except ReturnSig:
                return
            finally:
                self.depth -= 1
                self.call_stack.pop()
            try:
                yield v
            except GeneratorExit:
                self.call_stack.append(f.qualname)
                self.depth += 1
                try:
                    inner.close()
                finally:
                    self.depth -= 1
                    self.call_stack.pop()
                raise
            except PyRaise as pr:
                throw = pr

    # ================================================================== builtins
    def _make_builtins(self):
        B = {}

        def reg(name):
            def deco(fn):
                B[name] = BuiltinFn(name, fn)
                return fn
            return deco

        @reg('len')
        def _len(I, x):
            if isinstance(x, _SSeq):
                return x.length()
            if isinstance(x, (str, bytes, tuple, list)):
                return len(x)
            if isinstance(x, MList):
                if x.items is not None:
                    return len(x.items)
                return x.g['n']
            if isinstance(x, MDict):
                return len(x.pairs)
            if isinstance(x, MSet):
                return I.em.set_card(I, x.s)
            if hasattr(x, 'sym_len'):
                return x.sym_len(I)
            raise Unsupported(f'len of {x!r}')

        @reg('min')
        def _min(I, *xs):
            if len(xs) == 1:
                raise Unsupported('min of iterable')
            r = xs[0]
            for x in xs[1:]:
                r = smin(r, x)
            return r

        @reg('max')
        def _max(I, *xs):
            if len(xs) == 1:
                raise Unsupported('max of iterable')
            r = xs[0]
            for x in xs[1:]:
                r = smax(r, x)
            return r

        @reg('isinstance')
        def _isinstance(I, x, t):
            ts = t if isinstance(t, tuple) else (t,)
            for c in ts:
                if I.isinstance1(x, c):
                    return True
            return False

        @reg('hasattr')
        def _hasattr(I, x, name):
            if hasattr(x, 'sym_hasattr'):
                return x.sym_hasattr(I, name)
            return I.hasattr(x, name)

        @reg('getattr')
        def _getattr(I, x, name, *default):
            if default:
                if hasattr(x, 'sym_hasattr') and not x.sym_hasattr(I, name):
                    return default[0]
                try:
                    return I.getattr(x, name)
                except PyRaise as pr:
                    if pr.exc.cls.name == 'AttributeError':
                        return default[0]
                    raise
            return I.getattr(x, name)

        @reg('str')
        def _str(I, x=''):
            return I.to_str(x)

        @reg('int')
        def _int(I, x=0):
            if isinstance(x, (int, SInt)):
                return x
            if hasattr(x, 'sym_int'):
                return x.sym_int(I)
            raise Unsupported(f'int() of {x!r}')

        @reg('bool')
        def _bool(I, x=False):
            return I.vc.truth(x)

        @reg('list')
        def _list(I, x=None):
            if x is None:
                return MList([])
            items = I.concrete_items(x)
            if items is not None:
                return MList(list(items))
            if hasattr(x, 'sym_tolist'):
                return x.sym_tolist(I)
            if isinstance(x, GenObj):
                return MList(I.drain(x))
            return I.em.to_list(I, x)

        @reg('tuple')
        def _tuple(I, x=()):
            items = I.concrete_items(x)
            if items is not None:
                return tuple(items)
            if isinstance(x, GenObj):
                return tuple(I.drain(x))
            return I.em.to_tuple(I, x)

        @reg('set')
        def _set(I, x=None):
            if x is None:
                return MSet(SSet.empty())
            items = I.concrete_items(x)
            if items is not None:
                s = SSet.empty()
                for e in items:
                    s = s.add(e)
                return MSet(s)
            if isinstance(x, MSet):
                return MSet(x.s)
            if isinstance(x, GenObj):
                s = SSet.empty()
                for e in I.drain(x):
                    s = s.add(e)
                return MSet(s)
            return I.em.to_set(I, x)

        @reg('dict')
        def _dict(I, x=None, **kw):
            if x is None:
                return MDict(list(kw.items()))
            if isinstance(x, MDict):
                return MDict(list(x.pairs))
            items = I.concrete_items(x)
            if items is not None:
                return MDict([tuple(I.unpack(p, 2)) for p in items])
            return I.em.to_dict(I, x)

        @reg('sorted')
        def _sorted(I, x, key=None):
            return I.em.sorted_(I, x, key)

        @reg('zip')
        def _zip(I, *xs):
            if len(xs) == 1 and isinstance(xs[0], tuple) and xs[0] and xs[0][0] == '*':
                return I.em.zip_star(I, xs[0][1])
            lists = [I.concrete_items(x) for x in xs]
            if all(l is not None for l in lists):
                return MList([tuple(t) for t in zip(*lists)])
            return I.em.zip_(I, xs)

        @reg('iter')
        def _iter(I, x, *sentinel):
            if sentinel:
                return I.em.iter_sentinel(I, x, sentinel[0])
            return I.em.iter_(I, x)

        @reg('next')
        def _next(I, it, *default):
            return I.em.next_(I, it, *default)

        @reg('all')
        def _all(I, x):
            items = I.concrete_items(x)
            if items is None:
                raise Unsupported('all() over abstract iterable')
            return I._all([I.vc.truth(i) for i in items])

        @reg('any')
        def _any(I, x):
            items = I.concrete_items(x)
            if items is None:
                if hasattr(x, 'sym_any'):
                    return x.sym_any(I)
                raise Unsupported('any() over abstract iterable')
            return I._any([I.vc.truth(i) for i in items])

        @reg('sum')
        def _sum(I, x, start=0):
            items = I.concrete_items(x)
            if items is None:
                return I.em.sum_(I, x, start)
            r = start
            for i in items:
                r = r + i
            return r

        @reg('range')
        def _range(I, *a):
            if any(is_sym(x) for x in a):
                raise Unsupported('symbolic range')
            return MList(list(range(*a)))

        @reg('open')
        def _open(I, path, mode='r', **kw):
            return I.em.open_(I, path, mode, **kw)

        @reg('type')
        def _type(I, x):
            if isinstance(x, PyObj):
                return x.cls
            raise Unsupported('type()')

        @reg('print')
        def _print(I, *a, **k):
            return None

        B['None'] = None
        B['True'] = True
        B['False'] = False
        B['object'] = Dummy('object')
        B['property'] = Dummy('property')
        B['staticmethod'] = Dummy('staticmethod')
        B['classmethod'] = Dummy('classmethod')
        B['bytes'] = Dummy('bytes')
        B['float'] = Dummy('float')
        B['__file__'] = '/repo/disk_objectstore/x.py'
        return B

    def drain(self, g):
        out = []
        while True:
            try:
                out.append(next(g.pygen))
            except StopIteration:
                return out

    def isinstance1(self, x, c):
        if isinstance(c, Dummy):
            if c.name == 'bool' or c is self.builtins.get('bool'):
                return isinstance(x, (bool, SBool))
            raise Unsupported(f'isinstance against {c.name}')
        if isinstance(c, BuiltinFn):
            if c.name == 'bool':
                return isinstance(x, (bool, SBool))
            if c.name == 'int':
                return isinstance(x, (int, SInt, bool, SBool))
            if c.name == 'str':
                return isinstance(x, (str, SStr))
            if c.name == 'list':
                return isinstance(x, MList)
            if c.name == 'tuple':
                return isinstance(x, tuple)
            if c.name == 'dict':
                return isinstance(x, MDict)
            if c.name == 'set':
                return isinstance(x, MSet)
        if isinstance(c, RepoClass):
            if isinstance(x, PyObj):
                return x.cls.issub(c)
            if isinstance(x, EnumVal):
                return x.cls.issub(c)
            return False
        if hasattr(c, 'sym_instancecheck'):
            return c.sym_instancecheck(self, x)
        raise Unsupported(f'isinstance against {c!r}')


def _load(node):
    """Copy of an assignment target usable as an expression."""
    import copy
    n = copy.copy(node)
    n.ctx = ast.Load()
    return n
