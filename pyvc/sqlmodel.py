"""E-SQL / E-SQL-Q: the pack index (SQLite through SQLAlchemy 2.0) as part of the ghost world.

The table `db_object` is a map  hashkey -> (id, pack_id, offset, length, compressed, size)  (the UNIQUE constraint on
hashkey is structural), held as SMT arrays.  Statements built with the SQLAlchemy expression API are *interpreted*:
`select(...).where(...).order_by(...).limit(...)`, `func.count/sum/coalesce`, `insert [OR IGNORE]`, `delete`, `update`,
`bulk_update_mappings`, and the raw `text('SELECT <cols> FROM db_object ORDER BY <col>')` forms are parsed, so a changed
column list, comparison or ordering is re-interpreted, not pattern-matched.

Sessions: a session pins a snapshot of the committed table at its first statement and keeps it until commit()/close()
(WAL mode; confirmed against the real library when the design was prepared); its own writes are applied to its view at
once and published atomically by commit() (durable: SQLite WAL commit is trusted, as the property's anchors say).
`disk_objectstore/database.py` (engine/session configuration) is part of this trusted environment, not interpreted.
"""
from __future__ import annotations

import re

import z3

from . import envmodel as EM
from .engine import Dummy, ExcVal, Forall, MDict, MList, PyRaise, cur, raise_py
from .values import (SBool, SBytes, SInt, SSet, SStr, Unsupported, b_and, b_not, b_or, conc, fresh_name, implies, is_sym, ite)

StrS, IntS, BoolS = z3.StringSort(), z3.IntSort(), z3.BoolSort()
COLS = ('id', 'hashkey', 'compressed', 'size', 'offset', 'length', 'pack_id')
INT_COLS = ('id', 'size', 'offset', 'length', 'pack_id')


# ----------------------------------------------------------------------------- table states
class Table:
    """Immutable value: one state of db_object."""

    def __init__(self, present, cols, next_id):
        self.present = present           # SSet of hashkeys
        self.cols = cols                 # name -> z3 array String -> Int/Bool
        self.next_id = next_id           # SInt: every id in use is < next_id (AUTOINCREMENT-like growth, ids never reused
                                         # while the row exists)

    @staticmethod
    def fresh(hint='T'):
        cols = {c: z3.Const(fresh_name(f'{hint}.{c}'), z3.ArraySort(StrS, IntS)) for c in INT_COLS}
        cols['compressed'] = z3.Const(fresh_name(f'{hint}.compressed'), z3.ArraySort(StrS, BoolS))
        return Table(SSet.fresh(f'{hint}.present'), cols, SInt.fresh(f'{hint}.next_id'))

    def has(self, k):
        cur().key(k)
        return self.present.has(k)

    def col(self, c, k):
        k = SStr.of(k)
        cur().key(k)
        if c == 'hashkey':
            return k
        arr = self.cols[c]
        # read through updates at other keys (select-over-store with provably distinct indices)
        from .values import _prove
        while z3.is_app(arr) and arr.decl().kind() == z3.Z3_OP_STORE:
            base, idx, val = arr.children()
            if idx.eq(k.t):
                # `first occurrence wins` values are conditional terms: resolve the condition when the path decides it
                while z3.is_app(val) and val.decl().kind() == z3.Z3_OP_ITE:
                    cnd, x, y = val.children()
                    if _prove(cnd):
                        val = x
                    elif _prove(z3.Not(cnd)):
                        val = y
                    else:
                        break
                return SBool(val) if c == 'compressed' else SInt(val)
            if _prove(idx != k.t):
                arr = base
            else:
                break
        t = z3.Select(arr, k.t)
        return SBool(t) if c == 'compressed' else SInt(t)

    def with_row(self, k, vals):
        k = SStr.of(k)
        cols = dict(self.cols)
        for c, v in vals.items():
            if c == 'hashkey':
                continue
            cols[c] = z3.Store(cols[c], k.t, (SBool.of(v) if c == 'compressed' else SInt.of(v)).t)
        return Table(self.present.add(k), cols, self.next_id)

    def same_row(self, other, k):
        return b_and(self.has(k) == other.has(k),
                     implies(self.has(k), b_and(*[self.col(c, k) == other.col(c, k) for c in COLS if c != 'hashkey'])))

    def eq(self, other):
        return Forall(lambda k: self.same_row(other, k))


class Db:
    """The committed state of one packs.idx file (shared by all sessions on it)."""

    def __init__(self, vc, hint='db'):
        self._table = Table.fresh(hint)
        self.commits = 0
        self.open_connections = []

    @property
    def table(self):
        # same rule as for the world: a quantified clause must close over the Table value of the state it is stated in
        vc = cur()
        if vc is not None and getattr(vc, '_instantiating', False):
            from .engine import CheckerError
            raise CheckerError('a quantified clause reads the live index while being instantiated (capture db.table first)')
        return self._table

    @table.setter
    def table(self, t):
        self._table = t


def db_of_world(w, vc=None):
    if getattr(w, 'db', None) is None:
        w.db = Db(vc or cur())
    return w.db


def db_of(I):
    return db_of_world(I.vc.world, I.vc)


# ----------------------------------------------------------------------------- expression / statement ASTs
class Col:
    def __init__(self, name):
        self.name = name

    def sym_eq(self, I, o):
        return Cond('eq', self, o)

    def sym_cmp(self, I, op, o):
        return Cond({'Gt': 'gt', 'GtE': 'ge', 'Lt': 'lt', 'LtE': 'le'}[op], self, o)

    def sym_getattr(self, I, name):
        if name == 'in_':
            return EM.OMethod(lambda self_, I_, xs: Cond('in', self_, xs), self)
        raise Unsupported(f'column method {name}')

    def __repr__(self):
        return f'Obj.{self.name}'


class Cond:
    def __init__(self, op, col, arg):
        self.op, self.col, self.arg = op, col, arg

    def holds(self, I, T, k):
        v = T.col(self.col.name, k)
        a = self.arg
        if self.op == 'in':
            return _member(I, a, v)
        if isinstance(a, (EM.IntStr, EM.StrCat)) or (isinstance(a, (str, SStr)) and self.col.name in INT_COLS):
            # SQLite type affinity: an INTEGER column compared with a text that looks like an integer compares numerically
            if isinstance(a, EM.IntStr):
                a = a.n
            elif isinstance(a, str) and re.fullmatch(r'-?(0|[1-9][0-9]*)', a):
                a = int(a)
            else:
                raise Unsupported('comparison of an integer column with non-numeric text')
        if self.op == 'eq':
            return v == a
        return {'gt': v > a, 'ge': v >= a, 'lt': v < a, 'le': v <= a}[self.op]


def _member(I, coll, v):
    if isinstance(coll, (tuple, list)):
        return I._any([I.equals(v, x) for x in coll]) if coll else False
    r = I.contains(coll, v)
    return r


class Agg:
    def __init__(self, fn, arg=None, default=None):
        self.fn, self.arg, self.default = fn, arg, default

    def sym_getattr(self, I, name):
        if name == 'label':
            return EM.OMethod(lambda s, I_, *a: s, self)
        raise Unsupported(f'aggregate.{name}')


class FuncNS:
    def sym_getattr(self, I, name):
        if name == 'count':
            return EM._fn(lambda I_, *a: Agg('count', a[0] if a else None))
        if name == 'sum':
            return EM._fn(lambda I_, c: Agg('sum', c))
        if name == 'coalesce':
            return EM._fn(lambda I_, x, d: Agg(x.fn, x.arg, d) if isinstance(x, Agg) else _unsup('coalesce'))
        raise Unsupported(f'func.{name}')


def _unsup(what):
    raise Unsupported(what)


class Select:
    def __init__(self, cols):
        self.cols = cols
        self.conds = []
        self.order = None
        self.lim = None
        self.dist = False

    def _copy(self):
        s = Select(self.cols)
        s.conds, s.order, s.lim, s.dist = list(self.conds), self.order, self.lim, self.dist
        return s

    def sym_getattr(self, I, name):
        def where(s, I_, c):
            if not isinstance(c, Cond):
                raise Unsupported('where() with a non-column condition')
            n = s._copy(); n.conds.append(c); return n

        def order_by(s, I_, c):
            n = s._copy(); n.order = c; return n

        def limit(s, I_, k):
            n = s._copy(); n.lim = k; return n

        def distinct(s, I_):
            n = s._copy(); n.dist = True; return n

        def select_from(s, I_, t):
            return s._copy()
        m = {'where': where, 'order_by': order_by, 'limit': limit, 'distinct': distinct, 'select_from': select_from}
        if name in m:
            return EM.OMethod(m[name], self)
        raise Unsupported(f'select().{name}')


class Insert:
    def __init__(self, or_ignore=False):
        self.or_ignore = or_ignore

    def sym_getattr(self, I, name):
        if name == 'prefix_with':
            def pw(s, I_, p):
                if conc(p) != 'OR IGNORE':
                    raise Unsupported(f'insert prefix {p!r}')
                return Insert(True)
            return EM.OMethod(pw, self)
        raise Unsupported(f'insert().{name}')


class Delete:
    def __init__(self):
        self.conds = []

    def sym_getattr(self, I, name):
        if name == 'where':
            def where(s, I_, c):
                n = Delete(); n.conds = s.conds + [c]; return n
            return EM.OMethod(where, self)
        if name == 'execution_options':
            return EM.OMethod(lambda s, I_, **kw: s, self)
        raise Unsupported(f'delete().{name}')


class Update:
    def __init__(self):
        self.conds = []
        self.vals = {}

    def sym_getattr(self, I, name):
        if name == 'where':
            def where(s, I_, c):
                n = Update(); n.conds = s.conds + [c]; n.vals = dict(s.vals); return n
            return EM.OMethod(where, self)
        if name == 'values':
            def values(s, I_, **kw):
                n = Update(); n.conds = list(s.conds); n.vals = dict(s.vals, **kw); return n
            return EM.OMethod(values, self)
        raise Unsupported(f'update().{name}')


class RawText:
    def __init__(self, sql):
        self.sql = sql


def parse_text(I, sql):
    s = conc(sql)
    if not isinstance(s, str):
        raise Unsupported('text() of a symbolic string')
    u = ' '.join(s.split())
    if u.upper() in ('COMMIT', 'VACUUM', 'BEGIN'):
        return RawText(u.upper())
    m = re.fullmatch(r'SELECT (.+) FROM db_object ORDER BY (\w+)', u, re.I)
    if m:
        names = [c.strip() for c in m.group(1).split(',')]
        if all(c in COLS for c in names) and m.group(2) in COLS:
            q = Select([Col(c) for c in names])
            q.order = Col(m.group(2))
            return q
    raise Unsupported(f'raw SQL text {u!r}')


class TableRef:
    def sym_getattr(self, I, name):
        if name == 'insert':
            return EM._fn(lambda I_: Insert())
        raise Unsupported(f'Obj.__table__.{name}')


class ObjModel:
    """database.Obj"""

    def sym_getattr(self, I, name):
        if name in COLS:
            return Col(name)
        if name == '__table__':
            return TableRef()
        raise Unsupported(f'Obj.{name}')


OBJ = ObjModel()


# ----------------------------------------------------------------------------- row batches (lists of dicts built by the code)
class RowBatch:
    """Ghost description of an abstract `list[dict]` of rows keyed by hashkey: first occurrence of a key wins."""

    def __init__(self, keys, table, n, dup):
        self.keys = keys      # SSet
        self.table = table    # Table holding the field values for keys in `keys`
        self.n = n            # SInt length of the list
        self.dup = dup        # SBool: some key occurs twice in the list

    @staticmethod
    def empty():
        return RowBatch(SSet.empty(), Table.fresh('batch'), SInt.of(0), SBool.of(False))

    @staticmethod
    def fresh(hint='batch'):
        n = SInt.fresh(hint + '.n')
        cur().assume(n >= 0)
        return RowBatch(SSet.fresh(hint + '.keys'), Table.fresh(hint), n, cur().fresh_bool(hint + '.dup'))

    def add(self, I, d):
        vals = {}
        for k, v in d.pairs:
            vals[conc(k)] = v
        hk = SStr.of(vals['hashkey'])
        cur().key(hk)
        cur().ghost['$newest_key'] = hk          # ghost: the row appended last on this path (case splits of invariants)
        cur().ghost['$batch_before_append'] = self
        already = self.keys.has(hk)
        from .values import _prove
        fresh_key = _prove(z3.Not(already.t))       # provably a new key: its values are stored as they are
        t = self.table
        cols = dict(t.cols)
        for c, v in vals.items():
            if c == 'hashkey':
                continue
            if c not in cols:
                raise Unsupported(f'row dict with unknown column {c}')
            new = (SBool.of(v) if c == 'compressed' else SInt.of(v)).t
            cols[c] = z3.Store(cols[c], hk.t, new if fresh_key else z3.If(already.t, z3.Select(cols[c], hk.t), new))
        if fresh_key:
            already = SBool.of(False)
        b = RowBatch(self.keys.add(hk), Table(t.present, cols, t.next_id), self.n + 1, b_or(self.dup, already))
        b.has_id = getattr(self, 'has_id', False) or 'id' in vals
        b.fields = set(vals)
        return b


def batch_of(I, rows):
    if isinstance(rows, MList):
        if rows.items is not None:
            b = RowBatch.empty()
            for d in rows.items:
                if not isinstance(d, MDict):
                    raise Unsupported('row list element is not a dict')
                b = b.add(I, d)
            return b
        if 'batch' in rows.g:
            return rows.g['batch']
    raise Unsupported('row list without a batch description')


def batch_list(batch):
    """An abstract python list of row dicts described by `batch` (used by loop havocs)."""
    def on_append(I, l, d):
        l.g['batch'] = l.g['batch'].add(I, d)
        l.g['n'] = l.g['batch'].n
    return MList(None, batch=batch, n=batch.n, on_append=on_append)


# ----------------------------------------------------------------------------- results
class Row:
    """One result row: positional access."""

    def __init__(self, vals):
        self.vals = list(vals)

    def sym_getitem(self, I, idx):
        i = conc(idx)
        if i is None:
            raise Unsupported('symbolic row index')
        try:
            return self.vals[i]
        except IndexError:
            raise_py('IndexError', origin='row')

    def unpack(self, I, n):
        return self.vals

    def sym_len(self, I):
        return len(self.vals)


class Result:
    """Rows of `select cols where C [order by O] [limit L]` evaluated on table state T (fixed at execute time)."""

    def __init__(self, I, T, q):
        self.T, self.q = T, q
        self.consumed = False

    def matches(self, I, k):
        return b_and(self.T.has(k), *[c.holds(I, self.T, k) for c in self.q.conds])

    def row_of(self, I, k):
        return Row([self.T.col(c.name, k) for c in self.q.cols])

    def sym_getattr(self, I, name):
        if name == 'all':
            return EM.OMethod(lambda s, I_: ResultList(I_, s), self)
        raise Unsupported(f'result.{name}')

    def iter_model(self, I):
        if self.q.dist:
            raise Unsupported('iteration over a DISTINCT result (needs a unit-level model)')
        return _ResultIter(I, self)

    def sym_comprehension(self, I, n, g, env):
        """`[row[i] for row in result]` where column i is the hashkey: the list of the matching keys, each once."""
        import ast
        from .engine import MList
        e = n.elt
        ok = (not g.ifs and isinstance(g.target, ast.Name) and isinstance(e, ast.Subscript) and isinstance(e.value, ast.Name)
              and e.value.id == g.target.id and isinstance(e.slice, ast.Constant) and isinstance(e.slice.value, int))
        if not ok or self.q.lim is not None:
            raise Unsupported('comprehension over a result (only [row[i] for row in result] is modelled)')
        i = e.slice.value
        if self.q.dist:
            if len(self.q.cols) == 1 and i == 0 and self.q.cols[0].name == 'pack_id' and isinstance(n, ast.SetComp):
                return PackIdBag(I, self)
            raise Unsupported('comprehension over a DISTINCT result (only {row[0] ...} over the pack ids is modelled)')
        if not (0 <= i < len(self.q.cols)) or self.q.cols[i].name != 'hashkey':
            raise Unsupported('comprehension over a result selecting another column than hashkey')
        vc = I.vc
        S = SSet.fresh('selected_keys')
        vc.assume(Forall(lambda k: S.has(k) == self.matches(I, k)))
        cnt = SInt.fresh('nselected')
        vc.assume(cnt >= 0)
        EM.effect(I, 'sql_rows_fetched', result=self)
        if isinstance(n, ast.SetComp):
            from .engine import MSet
            return MSet(S)
        return MList(None, n=cnt, elems=S, distinct=SBool.of(True))

    def sym_truth(self, vc):
        return True


class PackIdBag:
    """{row[0] for row in execute(select(Obj.pack_id).distinct() [where ...])}: the set of pack ids occurring in the
    matching rows. sorted() of it is the same collection (iteration order is immaterial to the contracts)."""

    def __init__(self, I, res):
        self.res = res

    def sym_sorted(self, I):
        return self

    def member(self, done, p):
        return SBool(z3.IsMember(SInt.of(p).t, done))

    def iter_model(self, I):
        return _PackIdIter(I, self)


class _PackIdIter:
    """Ghost: done = z3 set of the pack ids already visited."""

    def __init__(self, I, bag):
        self.I, self.bag = I, bag

    def start(self, vc):
        return {'done': z3.EmptySet(z3.IntSort()), 'bag': self.bag}

    def havoc(self, vc, g):
        return dict(g, done=z3.Const(fresh_name('packs_done'), z3.SetSort(z3.IntSort())))

    def step(self, vc, g):
        res, I = self.bag.res, self.I
        wk = vc.key(SStr.fresh('row_of_pack'))
        vc.assume(res.matches(I, wk))
        p = res.T.col('pack_id', wk)
        vc.assume(b_not(SBool(z3.IsMember(p.t, g['done']))))
        return p, dict(g, done=z3.SetAdd(g['done'], p.t), pack=p)

    def finish(self, vc, g):
        res, I, done = self.bag.res, self.I, g['done']
        vc.assume(Forall(lambda k: implies(res.matches(I, k), SBool(z3.IsMember(res.T.col('pack_id', k).t, done)))))


class _ResultIter:
    """Ghost: done = keys already delivered, last = order value of the last delivered row, count."""

    def __init__(self, I, res):
        self.I, self.res = I, res

    def start(self, vc):
        return {'done': SSet.empty(), 'count': SInt.of(0), 'last': None, 'result': self.res}

    def havoc(self, vc, g):
        g = dict(g)
        g['done'] = SSet.fresh('delivered')
        g['count'] = SInt.fresh('ndelivered')
        vc.assume(g['count'] >= 0)
        res, I = self.res, self.I
        vc.assume(Forall(lambda k: implies(g['done'].has(k), res.matches(I, k))))
        if res.q.order is not None:
            g['last'] = SInt.fresh('lastord') if res.q.order.name in INT_COLS else SStr.fresh('lastord')
            g['any'] = vc.fresh_bool('delivered_any')
            vc.assume(g['any'] == (g['count'] > 0))
            o = res.q.order.name
            vc.assume(Forall(lambda k: implies(b_and(g['any'], g['done'].has(k)), res.T.col(o, k) <= g['last'])))
            vc.assume(Forall(lambda k: implies(b_and(g['any'], res.matches(I, k), b_not(g['done'].has(k))),
                                               res.T.col(o, k) >= g['last'])))
        if res.q.lim is not None:
            vc.assume(g['count'] <= SInt.of(res.q.lim))
        return g

    def step(self, vc, g):
        res, I = self.res, self.I
        k = vc.key(SStr.fresh('rowkey'))
        vc.assume(res.matches(I, k))
        vc.assume(b_not(g['done'].has(k)))
        if res.q.lim is not None:
            vc.assume(g['count'] < SInt.of(res.q.lim))
        g2 = dict(g)
        if res.q.order is not None:
            o = res.q.order.name
            v = res.T.col(o, k)
            if g.get('last') is not None:
                vc.assume(implies(g['any'], v >= g['last']))
            # it is a smallest remaining one
            done = g['done']
            vc.assume(Forall(lambda j: implies(b_and(res.matches(I, j), b_not(done.has(j))), res.T.col(o, j) >= v)))
            g2['last'] = v
            g2['any'] = SBool.of(True)
        g2['done'] = g['done'].add(k)
        g2['count'] = g['count'] + 1
        g2['key'] = k
        return res.row_of(I, k), g2

    def finish(self, vc, g):
        res, I = self.res, self.I
        done = g['done']
        if res.q.lim is None:
            vc.assume(Forall(lambda k: implies(res.matches(I, k), done.has(k))))
        else:
            vc.assume(b_or(g['count'] == SInt.of(res.q.lim), SBool.of(True)))
            full = (g['count'] == SInt.of(res.q.lim))
            vc.assume(Forall(lambda k: implies(b_and(b_not(full), res.matches(I, k)), done.has(k))))


class ResultList:
    """`.all()`: the rows as a list (abstract length); supports truthiness, len, [-1], iteration."""

    def __init__(self, I, res):
        self.res = res
        vc = I.vc
        self.n = SInt.fresh('nrows')
        vc.assume(self.n >= 0)
        if res.q.lim is not None:
            vc.assume(self.n <= SInt.of(res.q.lim))
        self.keys = SSet.fresh('rowkeys')
        T, q = res.T, res.q
        vc.assume(Forall(lambda k: implies(self.keys.has(k), res.matches(I, k))))
        self.empty_means_none = Forall(lambda k: implies(self.n == 0, b_not(self.keys.has(k))))
        vc.assume(self.empty_means_none)
        if q.lim is None:
            vc.assume(Forall(lambda k: implies(res.matches(I, k), self.keys.has(k))))
        else:
            full = (self.n == SInt.of(q.lim))
            vc.assume(Forall(lambda k: implies(b_and(b_not(full), res.matches(I, k)), self.keys.has(k))))
        # a non-empty list has an element
        wk = vc.key(SStr.fresh('somerow'))
        vc.assume(implies(self.n > 0, b_and(self.keys.has(wk), res.matches(I, wk))))
        self.last_key = None
        if q.order is not None:
            # the list holds the n smallest matching rows in ascending order of the ORDER BY column
            o = q.order.name
            lk = vc.key(SStr.fresh('lastrow'))
            self.last_key = lk
            vc.assume(implies(self.n > 0, b_and(self.keys.has(lk), res.matches(I, lk))))
            vc.assume(Forall(lambda k: implies(b_and(self.n > 0, self.keys.has(k)), T.col(o, k) <= T.col(o, lk))))
            vc.assume(Forall(lambda k: implies(b_and(self.n > 0, res.matches(I, k), b_not(self.keys.has(k))),
                                               T.col(o, k) >= T.col(o, lk))))
            if o == 'id':
                vc.assume(Forall(lambda k: implies(b_and(self.n > 0, res.matches(I, k), b_not(self.keys.has(k))),
                                                   T.col(o, k) > T.col(o, lk))))

    def sym_truth(self, vc):
        return self.n > 0

    def sym_len(self, I):
        return self.n

    def sym_getitem(self, I, idx):
        if conc(idx) == -1 and self.last_key is not None:
            if I.vc.branch(self.n == 0, label='rows[-1]:empty'):
                raise_py('IndexError', origin='rows[-1]')
            return self.res.row_of(I, self.last_key)
        raise Unsupported('indexing a result list (only [-1] of an ordered result is modelled)')

    def iter_model(self, I):
        return _ListIter(I, self)


class _ListIter:
    def __init__(self, I, lst):
        self.I, self.lst = I, lst

    def start(self, vc):
        return {'done': SSet.empty(), 'count': SInt.of(0), 'list': self.lst}

    def havoc(self, vc, g):
        g = dict(g)
        g['done'] = SSet.fresh('taken')
        g['count'] = SInt.fresh('ntaken')
        lst = self.lst
        vc.assume(b_and(g['count'] >= 0, g['count'] <= lst.n))
        vc.assume(Forall(lambda k: implies(g['done'].has(k), lst.keys.has(k))))
        return g

    def step(self, vc, g):
        lst = self.lst
        k = vc.key(SStr.fresh('rowkey'))
        vc.assume(lst.keys.has(k))
        vc.assume(b_not(g['done'].has(k)))
        vc.assume(g['count'] < lst.n)
        g2 = dict(g)
        g2['done'] = g['done'].add(k)
        g2['count'] = g['count'] + 1
        g2['key'] = k
        return lst.res.row_of(self.I, k), g2

    def finish(self, vc, g):
        lst, done = self.lst, g['done']
        vc.assume(g['count'] == lst.n)
        vc.assume(Forall(lambda k: implies(lst.keys.has(k), done.has(k))))


# ----------------------------------------------------------------------------- sessions
class EngineObj:
    def __init__(self, sess):
        self.sess = sess
        self.disposed = False

    def sym_getattr(self, I, name):
        if name == 'dispose':
            return EM.OMethod(EngineObj.m_dispose, self)
        raise Unsupported(f'engine.{name}')

    def m_dispose(self, I):
        self.disposed = True
        self.sess._release(I)
        return None


class EngineClass:
    def sym_instancecheck(self, I, x):
        return isinstance(x, EngineObj)


class ConnectionClass:
    def sym_instancecheck(self, I, x):
        return False


class SessionObj:
    def __init__(self, I, db, path=None):
        self.db = db
        self.view = None          # Table: pinned snapshot with own writes applied; None = no transaction open
        self.dirty = False
        self.closed = False
        self.bind = EngineObj(self)
        self.fds = []
        self.path = path
        self.stale = None         # optional callable producing the pinned snapshot (multi-handle units)
        w = I.vc.world
        self.fds = [w.new_fd('sqlite', path)]
        db.open_connections.append(self)

    def sym_truth(self, vc):
        return True

    def _release(self, I):
        w = I.vc.world
        for f in self.fds:
            if f in w.open_fds:
                w.close_fd(f)
        self.fds = []
        if self in self.db.open_connections:
            self.db.open_connections.remove(self)

    def _ensure_connection(self, I):
        if not self.fds:
            w = I.vc.world
            self.fds = [w.new_fd('sqlite', self.path)]
            if self not in self.db.open_connections:
                self.db.open_connections.append(self)

    def _begin(self, I):
        self._ensure_connection(I)
        if self.view is None:
            self.view = self.stale(I, self) if self.stale is not None else self.db.table
            EM.effect(I, 'sql_begin', session=self)
        return self.view

    def sym_getattr(self, I, name):
        if name == 'bind':
            return self.bind
        if name in ('execute', 'scalar', 'commit', 'close', 'bulk_update_mappings', 'rollback'):
            return EM.OMethod(getattr(SessionObj, 'm_' + name), self)
        raise Unsupported(f'session.{name}')

    # -- reading
    def m_scalar(self, I, stmt):
        EM.used('E-SQL')
        if EM.fault(I, 'sql'):
            raise_py('OperationalError', origin='scalar')
        T = self._begin(I)
        if isinstance(stmt, Select) and len(stmt.cols) == 1 and isinstance(stmt.cols[0], Agg):
            return aggregate(I, T, stmt.cols[0], stmt.conds)
        raise Unsupported('scalar() of a non-aggregate statement')

    def m_execute(self, I, stmt, params=None):
        EM.used('E-SQL')
        vc = I.vc
        if EM.fault(I, 'sql'):
            raise_py('OperationalError', origin='execute')
        if isinstance(stmt, RawText):
            if stmt.sql == 'COMMIT':
                return self.m_commit(I)
            if stmt.sql == 'VACUUM':
                EM.effect(I, 'sql_vacuum', session=self)
                return None
            return None
        T = self._begin(I)
        if isinstance(stmt, Select):
            if params is not None:
                raise Unsupported('select with parameters')
            EM.effect(I, 'sql_select', session=self, stmt=stmt)
            return Result(I, T, stmt)
        if isinstance(stmt, Insert):
            b = batch_of(I, params)
            if not stmt.or_ignore:
                clash = vc.fresh_bool('integrity_clash')
                # a plain INSERT fails as a whole when a key is already indexed or occurs twice in the batch
                vc.assume(Forall(lambda k: implies(b_and(b.keys.has(k), T.has(k)), clash)))
                vc.assume(implies(b.dup, clash))
                kw = vc.key(SStr.fresh('clashing_key'))
                vc.assume(implies(clash, b_or(b.dup, b_and(b.keys.has(kw), T.has(kw)))))
                if vc.branch(clash, label='insert:IntegrityError'):
                    EM.effect(I, 'sql_integrity_error', session=self, batch=b)
                    raise_py('IntegrityError', origin='insert')
                vc.assume(Forall(lambda k: implies(b.keys.has(k), b_not(T.has(k)))))
            new = Table.fresh('T')
            nid = new.next_id
            vc.assume(nid >= T.next_id)

            def ax(k):
                ins = b_and(b.keys.has(k), b_not(T.has(k)))
                same = b_and(*[new.col(c, k) == T.col(c, k) for c in COLS if c != 'hashkey'])
                got = b_and(*[new.col(c, k) == b.table.col(c, k) for c in COLS if c not in ('hashkey', 'id')])
                return b_and(new.present.has(k) == b_or(T.has(k), b.keys.has(k)),
                             implies(T.has(k), same),
                             implies(ins, b_and(got, new.col('id', k) >= T.next_id, new.col('id', k) < nid)))
            vc.assume(Forall(ax))
            self.view = new
            self.dirty = True
            EM.effect(I, 'sql_insert', session=self, batch=b, before=T, after=new)
            return None
        if isinstance(stmt, Delete):
            new = Table(SSet.fresh('T.present'), T.cols, T.next_id)
            conds = stmt.conds
            vc.assume(Forall(lambda k: new.present.has(k) == b_and(T.has(k), b_not(b_and(*[c.holds(I, T, k) for c in conds])))))
            self.view = new
            self.dirty = True
            EM.effect(I, 'sql_delete', session=self, before=T, after=new, conds=conds)
            return None
        if isinstance(stmt, Update):
            cols = dict(T.cols)
            conds = stmt.conds
            fresh = {}
            for c, v in stmt.vals.items():
                if c not in COLS or c == 'hashkey':
                    raise Unsupported(f'update of column {c}')
                fresh[c] = z3.Const(fresh_name('T.' + c), cols[c].sort())
                cols[c] = fresh[c]
            new = Table(T.present, cols, T.next_id)
            vals = stmt.vals

            def axu(k):
                hit = b_and(T.has(k), *[c.holds(I, T, k) for c in conds])
                return b_and(*[new.col(c, k) == ite(hit, _sql_value(vals[c]), T.col(c, k)) for c in vals])
            vc.assume(Forall(axu))
            self.view = new
            self.dirty = True
            EM.effect(I, 'sql_update', session=self, before=T, after=new)
            return None
        raise Unsupported(f'execute of {stmt!r}')

    def m_bulk_update_mappings(self, I, model, rows):
        """UPDATE db_object SET <fields> WHERE id = :id for every mapping."""
        EM.used('E-SQL')
        vc = I.vc
        if EM.fault(I, 'sql'):
            raise_py('OperationalError', origin='bulk_update_mappings')
        T = self._begin(I)
        b = batch_of(I, rows)
        if not getattr(b, 'has_id', False) and not (isinstance(rows, MList) and rows.items == []):
            raise Unsupported('bulk_update_mappings without primary keys')
        # encoding side condition: the (id, hashkey) pairs of the mappings are those of existing rows, so that the update
        # by primary key is the update of the row with that hashkey
        ok = Forall(lambda k: implies(b.keys.has(k), b_and(T.has(k), T.col('id', k) == b.table.col('id', k))))
        if not vc.check('encoding:bulk_update_rows_are_existing_rows', ok):
            raise Unsupported('bulk_update_mappings with (id, hashkey) pairs that are not those of existing rows')
        fields = [c for c in getattr(b, 'fields', COLS) if c not in ('id', 'hashkey')]
        cols = dict(T.cols)
        for c in fields:
            cols[c] = z3.Const(fresh_name('T.' + c), cols[c].sort())
        new = Table(T.present, cols, T.next_id)
        vc.assume(Forall(lambda k: b_and(*[new.col(c, k) == ite(b.keys.has(k), b.table.col(c, k), T.col(c, k)) for c in fields])))
        self.view = new
        self.dirty = True
        EM.effect(I, 'sql_update', session=self, before=T, after=new, batch=b)
        return None

    def m_commit(self, I):
        EM.used('E-SQL')
        if EM.fault(I, 'commit'):
            # a failed commit publishes nothing; the transaction is rolled back
            self.view = None
            self.dirty = False
            raise_py('OperationalError', origin='commit')
        if self.view is not None and self.dirty:
            before = self.db.table
            EM.effect(I, 'pre_sql_commit', session=self, before=before, after=self.view)
            self.db.table = self.view
            self.db.commits += 1
            EM.effect(I, 'sql_commit', session=self, before=before, after=self.view)
        self.view = None
        self.dirty = False
        return None

    def m_rollback(self, I):
        self.view = None
        self.dirty = False
        return None

    def m_close(self, I):
        # pending writes are rolled back, the read snapshot is released
        if self.dirty:
            EM.effect(I, 'sql_rollback', session=self)
        EM.effect(I, 'sql_close', session=self)
        self.view = None
        self.dirty = False
        self.closed = True
        return None


def _sql_value(v):
    if isinstance(v, EM.IntStr):
        return v.n
    if isinstance(v, str) and re.fullmatch(r'-?(0|[1-9][0-9]*)', v):
        return int(v)         # integer affinity of the column
    return v


SUM_fn = {}


def aggregate(I, T, agg, conds):
    """count(*) / sum(col) over the matching rows: an uninterpreted integer, constrained only by what the repository
    relies on (non-negativity of counts; emptiness)."""
    vc = I.vc
    r = SInt.fresh(agg.fn)
    if agg.fn == 'count':
        vc.assume(r >= 0)
        vc.assume(Forall(lambda k: implies(b_and(T.has(k), *[c.holds(I, T, k) for c in conds]), r > 0)))
        return r
    if agg.fn == 'sum':
        if agg.default is None:
            raise Unsupported('sum() without coalesce')
        return r
    raise Unsupported(f'aggregate {agg.fn}')


def get_session(I, path, create=False):
    EM.used('E-SQL')
    from . import fsmodel as FS
    vc = I.vc
    w = FS.fs(I)
    p = FS.as_path(I, path)
    if EM.fault(I, 'sql_connect'):
        raise_py('OperationalError', origin='get_session')
    exists = w.inode_at(p.pid()) != 0
    if not create:
        if vc.branch(b_not(exists), label='get_session:ENOENT'):
            raise_py('FileNotFoundError', origin='get_session')
    elif vc.branch(b_not(exists), label='get_session:create'):
        ino = w.new_inode(vc, SBytes.fresh('sqlite_file'))
        w.set_entry(p.pid(), ino)
    s = SessionObj(I, db_of(I), p)
    EM.effect(I, 'sql_connect', session=s)
    return s


def sqlalchemy_modules():
    f = EM._fn
    return {
        'sqlalchemy.engine': lambda I: EM.ModuleObj('sqlalchemy.engine', {'Connection': ConnectionClass(), 'Engine': EngineClass()}),
        'sqlalchemy.orm.session': lambda I: EM.ModuleObj('sqlalchemy.orm.session', {'Session': Dummy('Session')}),
        'sqlalchemy.sql': lambda I: EM.ModuleObj('sqlalchemy.sql', {'func': FuncNS()}),
        'sqlalchemy.sql.expression': lambda I: EM.ModuleObj('sqlalchemy.sql.expression', {
            'select': f(lambda I_, *cols: Select([c if isinstance(c, (Col, Agg)) else _unsup('select of non-column') for c in cols])),
            'delete': f(lambda I_, m: Delete()), 'update': f(lambda I_, m: Update()), 'text': f(parse_text)}),
        'disk_objectstore.database': lambda I: EM.ModuleObj('disk_objectstore.database', {'Obj': OBJ, 'get_session': f(get_session)}),
    }
