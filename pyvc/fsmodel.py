"""File-system part of the ghost world (DESIGN.md 2.6, E-OS / E-FILE-W): directory entries as an SMT map
from path identifiers to inodes, `pathlib.Path` values, and the `os.*` calls the repository uses.

Path identifiers are integers built by the uninterpreted injective constructor CHILD(parent, component);
injectivity is instantiated pairwise on the ground CHILD terms of the current path (no quantifier reaches the
solver).  Every call is atomic (assumption A-ATOMIC) and announces itself through `envmodel.effect`, which is
where units in effect-point mode hang their crash / power-loss / ordering obligations.
"""
from __future__ import annotations

import z3

from . import envmodel as EM
from .engine import Dummy, ExcClass, MList, PyRaise, cur, raise_py
from .values import (SBool, SBytes, SInt, SStr, Unsupported, b_and, b_not, b_or, conc, fresh_name, implies, is_sym, ite,
                     slen)

IntS = z3.IntSort()
StrS = z3.StringSort()
CHILD_fn = z3.Function('child', IntS, StrS, IntS)
PARENT_fn = z3.Function('parent_of', IntS, IntS)
NAME_fn = z3.Function('name_of', IntS, StrS)


def _comp(I, x):
    """A path component as an SStr."""
    if isinstance(x, (str, SStr)):
        return SStr.of(x)
    if isinstance(x, (EM.IntStr, EM.StrCat)):
        return SStr.of(EM.flatten_str(I, x))
    if isinstance(x, PathVal):
        raise Unsupported('joining a path with an absolute path')
    s = I.to_str(x)
    if isinstance(s, (str, SStr)):
        return SStr.of(s)
    return SStr.of(EM.flatten_str(I, s))


class PathVal:
    """pathlib.Path: a base identifier plus literal/symbolic components."""

    def __init__(self, base, parts=()):
        self.base = SInt.of(base)
        self.parts = tuple(parts)

    def pid(self):
        vc = cur()
        t = self.base.t
        for c in self.parts:
            t = CHILD_fn(t, SStr.of(c).t)
            _register_child(vc, t)
        return SInt(t)

    def __repr__(self):
        return f'<Path {self.base}/{"/".join(str(p) for p in self.parts)}>'

    # -- interpreter protocol
    def sym_binop(self, I, op, other):
        if op != 'Div':
            raise Unsupported(f'Path {op}')
        return PathVal(self.base, self.parts + (_comp(I, other),))

    def sym_eq(self, I, o):
        if not isinstance(o, PathVal):
            return False
        return self.pid() == o.pid()

    def sym_truth(self, vc):
        return True

    def sym_str(self, I):
        return SStr.fresh('pathstr')

    def sym_getattr(self, I, name):
        if name == 'parent':
            if self.parts:
                return PathVal(self.base, self.parts[:-1])
            return PathVal(SInt(PARENT_fn(self.base.t)))
        if name == 'name':
            if self.parts:
                return self.parts[-1]
            return SStr(NAME_fn(self.base.t))
        if name in ('exists', 'is_file', 'is_dir', 'stat', 'resolve', 'unlink', 'absolute'):
            return EM.OMethod(getattr(PathVal, 'm_' + name), self)
        raise Unsupported(f'Path.{name}')

    def m_resolve(self, I):
        return self

    m_absolute = m_resolve

    def m_exists(self, I):
        w = fs(I)
        p = self.pid()
        return b_or(w.inode_at(p) != 0, w.is_dir(p))

    def m_is_file(self, I):
        return fs(I).inode_at(self.pid()) != 0

    def m_is_dir(self, I):
        return fs(I).is_dir(self.pid())

    def m_stat(self, I):
        w = fs(I)
        ino = w.inode_at(self.pid())
        if I.vc.branch(b_and(ino == 0, b_not(w.is_dir(self.pid()))), label='stat:ENOENT'):
            raise_py('FileNotFoundError', origin='stat')
        return StatResult(w.data(ino).length())

    def m_unlink(self, I):
        return os_remove(I, self)


class StatResult:
    def __init__(self, size):
        self.st_size = size

    def sym_getattr(self, I, name):
        if name == 'st_size':
            return self.st_size
        raise Unsupported(f'stat_result.{name}')


DEPTH_fn = z3.Function('path_depth', IntS, IntS)


def _register_child(vc, t):
    """Injectivity of CHILD, stated through its inverses (one axiom per ground term, injectivity follows by
    congruence):  parent_of(child(p, a)) = p,  name_of(child(p, a)) = a,  depth(child(p, a)) = depth(p) + 1."""
    reg = vc.ghost.setdefault('__child_terms__', set())
    i = t.get_id()
    if i in reg:
        return
    reg.add(i)
    vc.ghost.setdefault('__child_keep__', []).append(t)      # keep the term alive: its id must not be recycled
    p, a = t.children()
    vc.solver.add(z3.And(PARENT_fn(t) == p, NAME_fn(t) == a, DEPTH_fn(t) == DEPTH_fn(p) + 1))


def fs(I):
    w = I.vc.world
    if w is None:
        raise Unsupported('file-system call without a world')
    if not hasattr(w, 'ent'):
        init_fs(I.vc, w)
    return w


def init_fs(vc, w):
    w.ent = z3.Const(fresh_name('W.ent'), z3.ArraySort(IntS, IntS))      # path id -> inode (0 = no file)
    w.dirs = z3.Const(fresh_name('W.dirs'), z3.ArraySort(IntS, z3.BoolSort()))
    w.__class__ = FsWorld if type(w) is EM.World else w.__class__
    return w


class FsWorld(EM.World):
    def inode_at(self, pid):
        self._live()
        pid = SInt.of(pid)
        ino = SInt(z3.Select(self.ent, pid.t))
        vc = cur()
        # representation facts of the map, instantiated where it is read: inode numbers are allocated ones ...
        vc.solver.add(z3.And(ino.t >= 0, ino.t < self.next_ino.t))
        # ... and an entry that existed before an allocation does not point at the inode allocated later
        for E, bound in getattr(self, 'alloc_history', ()):
            vc.solver.add(z3.Select(E, pid.t) < bound)
        return ino

    def new_inode(self, vc, content=b''):
        if not hasattr(self, 'alloc_history'):
            self.alloc_history = []
        self.alloc_history.append((self.ent, self.next_ino.t))
        return EM.World.new_inode(self, vc, content)

    def is_dir(self, pid):
        self._live()
        return SBool(z3.Select(self.dirs, SInt.of(pid).t))

    def set_entry(self, pid, ino):
        self.ent = z3.Store(self.ent, SInt.of(pid).t, SInt.of(ino).t)

    def set_dir(self, pid, v):
        self.dirs = z3.Store(self.dirs, SInt.of(pid).t, z3.BoolVal(v) if isinstance(v, bool) else SBool.of(v).t)


class FrozenWorld:
    """Immutable view of a world state (the SMT arrays at one instant): what quantified clauses must close over."""

    def __init__(self, w):
        self.ent, self.dirs, self.idata, self.isync, self.next_ino = w.ent, w.dirs, w.idata, w.isync, w.next_ino
        self.db_table = getattr(getattr(w, 'db', None), 'table', None)

    def inode_at(self, pid):
        return SInt(z3.Select(self.ent, SInt.of(pid).t))

    def is_dir(self, pid):
        return SBool(z3.Select(self.dirs, SInt.of(pid).t))

    def data(self, ino):
        return SBytes(z3.simplify(z3.Select(self.idata, SInt.of(ino).t)))

    def synced(self, ino):
        return SInt(z3.Select(self.isync, SInt.of(ino).t))


def snap(w):
    return w if isinstance(w, FrozenWorld) else FrozenWorld(fs_of(w))


def fs_of(w):
    if not hasattr(w, 'ent'):
        init_fs(cur(), w)
    return w


def as_path(I, p):
    if isinstance(p, PathVal):
        return p
    raise Unsupported(f'file-system call on a non-Path value {p!r}')


class PathCtor:
    """pathlib.Path(...)"""

    def sym_call(self, I, args, kwargs):
        if len(args) == 1 and isinstance(args[0], PathVal):
            return args[0]
        raise Unsupported('Path() of a non-path value')

    def sym_instancecheck(self, I, x):
        return isinstance(x, PathVal)


# ----------------------------------------------------------------------------- open()
def open_file(I, path, mode='r', **kw):
    """E-FILE-R / E-FILE-A / E-FILE-W over the world's directory entries."""
    vc = I.vc
    w = fs(I)
    p = as_path(I, path)
    pid = p.pid()
    m = mode.replace('b', '').replace('t', '')
    EM.used('E-OS')
    if EM.fault(I, 'open'):
        raise_py('OSError', 'EIO', origin=f'open:{mode}')
    ino = w.inode_at(pid)
    if m == 'r':
        if vc.branch(ino == 0, label='open:ENOENT'):
            raise_py('FileNotFoundError', origin='open')
        if vc.profile.get('os.name', 'posix') == 'nt' and vc.profile.get('sharing_violations') and \
                vc.nondet_bool(label='open:EACCES'):
            raise_py('PermissionError', origin='open')
        f = EM.FileObj(w, ino, 'rb' if 'b' in mode else 'r', path=p)
        EM.effect(I, 'open_read', file=f, path=p)
        return f
    if m == 'x':
        if vc.branch(b_or(ino != 0, w.is_dir(pid)), label='open:EEXIST'):
            raise_py('FileExistsError', origin='open:x')
        new = w.new_inode(vc, b'')
        w.set_entry(pid, new)
        f = EM.FileObj(w, new, 'xb' if 'b' in mode else 'x', path=p)
        EM.effect(I, 'create', file=f, path=p, ino=new)
        return f
    if m == 'w':
        if vc.branch(ino == 0, label='open:w:new'):
            new = w.new_inode(vc, b'')
            w.set_entry(pid, new)
            f = EM.FileObj(w, new, 'wb' if 'b' in mode else 'w', path=p)
            EM.effect(I, 'create', file=f, path=p, ino=new)
            return f
        w.set_data(ino, b'')
        w.set_synced(ino, 0)
        f = EM.FileObj(w, ino, 'wb' if 'b' in mode else 'w', path=p)
        EM.effect(I, 'truncate_open', file=f, path=p, ino=ino)
        return f
    if m == 'a':
        if vc.branch(ino == 0, label='open:a:new'):
            new = w.new_inode(vc, b'')
            w.set_entry(pid, new)
            f = EM.FileObj(w, new, 'ab', path=p, at_end=True)
            EM.effect(I, 'create', file=f, path=p, ino=new)
            return f
        f = EM.FileObj(w, ino, 'ab', path=p, at_end=True)
        EM.effect(I, 'open_append', file=f, path=p, ino=ino)
        return f
    raise Unsupported(f'open mode {mode!r}')


# ----------------------------------------------------------------------------- os.*
def _win(vc):
    return vc.profile.get('os.name', 'posix') == 'nt'


def os_rename(I, src, dst, replace=False):
    vc = I.vc
    w = fs(I)
    EM.used('E-OS')
    s, d = as_path(I, src), as_path(I, dst)
    tag = 'replace' if replace else 'rename'
    if EM.fault(I, tag):
        raise_py('OSError', 'EIO', origin=tag)
    sp, dp = s.pid(), d.pid()
    ino = w.inode_at(sp)
    if vc.branch(ino == 0, label=f'{tag}:ENOENT'):
        raise_py('FileNotFoundError', origin=tag)
    dino = w.inode_at(dp)
    if _win(vc):
        if not replace and vc.branch(dino != 0, label='rename:EEXIST'):
            raise_py('FileExistsError', origin='rename')
        if replace and vc.profile.get('sharing_violations') and vc.branch(dino != 0, label='replace:dst_exists') and \
                vc.nondet_bool(label='replace:EACCES'):
            raise_py('PermissionError', origin='replace')
    EM.effect(I, 'pre_' + tag, src=s, dst=d, ino=ino, replaced=dino)
    w.set_entry(dp, ino)
    w.ent = z3.If(sp.t == dp.t, w.ent, z3.Store(w.ent, sp.t, z3.IntVal(0)))
    EM.effect(I, tag, src=s, dst=d, ino=ino, replaced=dino)
    return None


def os_replace(I, src, dst):
    return os_rename(I, src, dst, replace=True)


def os_remove(I, path):
    vc = I.vc
    w = fs(I)
    EM.used('E-OS')
    p = as_path(I, path)
    if EM.fault(I, 'remove'):
        raise_py('OSError', 'EIO', origin='remove')
    pid = p.pid()
    ino = w.inode_at(pid)
    if vc.branch(ino == 0, label='remove:ENOENT'):
        raise_py('FileNotFoundError', origin='remove')
    if _win(vc) and vc.profile.get('sharing_violations') and vc.nondet_bool(label='remove:EACCES'):
        raise_py('PermissionError', origin='remove')
    EM.effect(I, 'pre_remove', path=p, ino=ino)
    w.set_entry(pid, 0)
    EM.effect(I, 'remove', path=p, ino=ino)
    return None


def os_link(I, src, dst):
    vc = I.vc
    w = fs(I)
    EM.used('E-OS')
    s, d = as_path(I, src), as_path(I, dst)
    if EM.fault(I, 'link'):
        raise_py('OSError', 'EIO', origin='link')
    ino = w.inode_at(s.pid())
    if vc.branch(ino == 0, label='link:ENOENT'):
        raise_py('FileNotFoundError', origin='link')
    if vc.branch(w.inode_at(d.pid()) != 0, label='link:EEXIST'):
        raise_py('FileExistsError', origin='link')
    EM.effect(I, 'pre_link', src=s, dst=d, ino=ino)
    w.set_entry(d.pid(), ino)
    EM.effect(I, 'link', src=s, dst=d, ino=ino)
    return None


def os_mkdir(I, path, *a):
    vc = I.vc
    w = fs(I)
    EM.used('E-OS')
    p = as_path(I, path)
    if EM.fault(I, 'mkdir'):
        raise_py('OSError', 'EIO', origin='mkdir')
    pid = p.pid()
    if vc.branch(b_or(w.is_dir(pid), w.inode_at(pid) != 0), label='mkdir:EEXIST'):
        raise_py('FileExistsError', origin='mkdir')
    w.set_dir(pid, True)
    EM.effect(I, 'mkdir', path=p)
    return None


def os_fstat(I, fd):
    w = fs(I)
    if not isinstance(fd, EM.FdRec) or fd.ino is None:
        raise Unsupported('fstat of a non-file descriptor')
    if fd not in w.open_fds:
        raise_py('OSError', 'EBADF', origin='fstat')
    return StatResult(w.data(fd.ino).length())


class DirListing:
    """os.listdir(d): the set of names n with an entry CHILD(d, n) at the time of the call (arbitrary order)."""

    def __init__(self, I, path):
        self.w = fs(I)
        self.dir = as_path(I, path)
        self.ent, self.dirs = self.w.ent, self.w.dirs     # snapshot at the time of the call

    def has(self, name):
        t = CHILD_fn(self.dir.pid().t, SStr.of(name).t)
        _register_child(cur(), t)
        return SBool(z3.Or(z3.Select(self.ent, t) != 0, z3.Select(self.dirs, t)))

    def sym_truth(self, vc):
        raise Unsupported('truth value of a directory listing')

    def iter_model(self, I):
        return _ListingIter(self)

    def sym_contains(self, I, x):
        return self.has(x)

    def sym_comprehension(self, I, n, g, env):
        """`[name for name in listing if cond(name)]`: over-approximated by an arbitrary sub-collection of the listed names
        (the filter condition is not evaluated)."""
        import ast
        from .engine import MList, Forall
        from .values import SSet, SInt
        if not (isinstance(g.target, ast.Name) and isinstance(n.elt, ast.Name) and n.elt.id == g.target.id):
            raise Unsupported('comprehension over a directory listing that transforms the names')
        vc = I.vc
        S = SSet.fresh('listed_subset')
        vc.assume(Forall(lambda k: implies(S.has(k), self.has(k))))
        cnt = SInt.fresh('nlisted')
        vc.assume(cnt >= 0)
        return MList(None, n=cnt, elems=S)


class _ListingIter:
    """for name in os.listdir(d): ghost `done` = names already taken (set); each step takes a fresh listed name."""

    def __init__(self, listing):
        self.l = listing

    def start(self, vc):
        from .values import SSet
        return {'done': SSet.empty(), 'listing': self.l}

    def havoc(self, vc, ghost):
        from .values import SSet
        g = dict(ghost)
        g['done'] = SSet.fresh('listed')
        return g

    def step(self, vc, ghost):
        x = vc.key(SStr.fresh('name'))
        vc.assume(self.l.has(x))
        vc.assume(b_not(ghost['done'].has(x)))
        g = dict(ghost)
        g['done'] = ghost['done'].add(x)
        return x, g

    def finish(self, vc, ghost):
        from .engine import Forall
        l, done = self.l, ghost['done']
        vc.assume(Forall(lambda k: implies(l.has(k), done.has(k))))


def os_listdir(I, path):
    EM.used('E-OS')
    if EM.fault(I, 'listdir'):
        raise_py('OSError', 'EIO', origin='listdir')
    return DirListing(I, path)


def os_module_attrs():
    f = EM._fn
    return {'rename': f(os_rename), 'replace': f(os_replace), 'remove': f(os_remove), 'unlink': f(os_remove),
            'link': f(os_link), 'mkdir': f(os_mkdir), 'fstat': f(os_fstat), 'listdir': f(os_listdir)}
