#!/usr/bin/env python3
"""Developer tool: run the pyvc units of contract modules in parallel.  tools_run_units.py <module>[,<module>] [pattern] [--deferred] [--timeout N]"""
import json, os, subprocess, sys, concurrent.futures as cf, time
HERE = os.path.dirname(os.path.abspath(__file__))
args = [a for a in sys.argv[1:] if not a.startswith('--')]
mods = args[0].split(',')
pat = args[1] if len(args) > 1 else ''
tmo = int(sys.argv[sys.argv.index('--timeout') + 1]) if '--timeout' in sys.argv else 300
env = dict(os.environ, PYTHONPATH=HERE)
env.setdefault('PYVC_REPO', os.environ.get('VERIF_REPO', '/repo'))
code = ('import importlib,json\nout=[]\nfor m in %r:\n  mod=importlib.import_module("contracts."+m)\n  for u in mod.UNITS:\n    out.append((m,u.name,bool(u.trusted),bool(getattr(u,"deferred",False))))\nprint(json.dumps(out))' % mods)
units = json.loads(subprocess.run(['python3-vt', '-c', code], capture_output=True, text=True, env=env, cwd=HERE, check=True).stdout)
todo = [(m, n) for m, n, tr, de in units if (n == pat if '--exact' in sys.argv else pat in n) and not tr and (not de or '--deferred' in sys.argv)]
def run(mn):
    m, n = mn
    t0 = time.time()
    try:
        r = subprocess.run(['python3-vt', '-m', 'pyvc.worker', m, n, '--par', os.environ.get('PYVC_PAR', '14')], capture_output=True, text=True, env=env, cwd=HERE, timeout=tmo)
    except subprocess.TimeoutExpired:
        return n, None, f'TIMEOUT {tmo}s'
    for line in r.stdout.splitlines():
        if line.startswith('PYVC-RESULT '):
            return n, json.loads(line[12:]), ''
    return n, None, 'CRASH ' + (r.stderr or r.stdout)[-600:]
tot = ok = 0
bad = 0
with cf.ThreadPoolExecutor(max_workers=14) as ex:
    for n, r, err in ex.map(run, todo):
        if r is None:
            print(f'!! {n}: {err}'); bad += 1; continue
        obs = r['obligations']
        d = sum(o['status'] == 'discharged' for o in obs)
        tot += len(obs); ok += d
        flag = 'ok ' if r['status'] == 'ok' and d == len(obs) else 'BAD'
        if flag == 'BAD': bad += 1
        print(f"{flag} {n}: {r['status']} {r['reason'][:300]} {d}/{len(obs)} paths={r['stats'].get('paths')} solver={r['stats'].get('solver_time',0):.1f}s wall={r['wall']}s")
        for o in obs:
            if o['status'] != 'discharged':
                print(f"      {o['status'].upper()} {o['name']}")
                for f in o['failed'][:1]:
                    print('         path:', f['path'][-7:]); print('         info:', f['info'], '| clause:', f['clause'][:300].replace('\n', ' '))
                for f in o['unknown'][:1]:
                    print('         ', f['reason'], f['clause'][:200].replace('\n', ' '))
            elif not o['witnessed']:
                print(f"      (no witness) {o['name']}")
print(f'TOTAL {ok}/{tot} obligations, {bad} unit(s) not fully discharged, {len(todo)} units')
