"""Regenerates MANIFEST.json (run by hand after changing the set of claimed properties or of contract units)."""
import json
import os
import subprocess

HERE = os.path.dirname(os.path.abspath(__file__))
code = ('import importlib,json,check\nout=[]\n'
        'for m in check.CONTRACT_MODULES:\n  mod=importlib.import_module("contracts."+m)\n'
        '  for u in mod.UNITS:\n    out.append({"name":u.name,"props":list(u.props),"trusted":bool(u.trusted),"tier":getattr(u,"tier","quick"),"bounded":bool(getattr(u,"bounded",False)),"quick_props":list(getattr(u,"quick_props",None) or u.props)})\n'
        'print(json.dumps(out))')
units = json.loads(subprocess.run(['python3-vt', '-c', code], capture_output=True, text=True, cwd=HERE,
                                  env=dict(os.environ, PYTHONPATH=HERE), check=True).stdout)


def proved_units(p, tier=None):
    seen, out = set(), []
    for u in units:
        in_quick = u['tier'] != 'thorough' and p in u['quick_props']
        if p in u['props'] and not u['trusted'] and not u['bounded'] and u['name'] not in seen and \
                (tier is None or (tier == 'quick') == in_quick):
            seen.add(u['name'])
            out.append(u['name'].split(':', 1)[1])
    return out


def assumed_units(p):
    return sorted({u['name'].split(':', 1)[1] for u in units if p in u['props'] and u['trusted']})


BOUNDED_NOTE = ('Bounded part (never counted as proved): postconditions taken from the property statement are evaluated at run time on '
                'the real code against a ghost key->bytes map / raw sqlite3+zlib reads over seeded cases; bound = number of cases x '
                'steps given in evidence. Trusts: the ghost-model oracle in /verif/bounded, CPython, SQLite, the scratch file '
                'system (/dev/shm).')
DED_NOTE = ('Deductive part: pyvc (home-made VC generator: symbolic execution of the real AST against sidecar contracts, z3 5.1). '
            'Trusted: the encoded Python subset semantics, the environment models (file objects, directory entries, fsync, hashlib, '
            'zlib, SQLite/SQLAlchemy sessions and statements, str(int)), generalisation of chunk-size literals, z3, and the assumed '
            'summaries listed in evidence (functions_assumed). ')
FAULT_NOTE = ('Bounded part (never counted as proved): every I/O-relevant call (open/write/flush/close/truncate, '
              'os.rename/replace/link/unlink/remove/fsync/mkdir, Session.execute/commit; in the fault family also read-opens) of 13 '
              'operation variants on seeded prepared containers is intercepted from outside the repository; the folder is copied '
              'before each call and after completion (crash state), cut back to last-fsync content (power loss), or the call '
              'raises (EIO, for opens also EACCES). Trusts: copying the folder = the state a killed process leaves; SQLite WAL '
              'commits durable; directory operations survive power loss; the interception sees every I/O call of the library.')

TEXT = {
 'C01': 'Mixed. Proved for all inputs: every stream class meets the in-memory-file contract (read side); the loose write path '
        '(HashWriterWrapper, ObjectWriter.__enter__/__exit__, add_streamed_object, add_object: key = digest of exactly the streamed '
        'bytes, published copy = those bytes) and the pack write step (_write_data_to_packfile: appended bytes = the object / a '
        'complete zlib stream of it, digest and size returned) hold for every content, chunking (short reads) and configuration; '
        'the metadata generator behind get_objects_meta / get_objects_stream_and_meta reports for every requested key exactly the '
        'committed row or loose file of that key (or a miss) and, with streams, a stream whose content hashes to the key; thorough tier: the per-object steps of pack_all_loose and '
        'add_streamed_objects_to_pack. Bounded: every write path x '
        'configuration x content class returns the digest and reads back whole/chunked/bulk (incl. lowered lookup thresholds).',
 'C02': 'Mixed. Proved: add_streamed_object / add_object add exactly one key with exactly the bytes and touch no other object; '
        '_clean_loose_objects removes exactly the requested loose files; thorough: pack_all_loose with the full frame invariant '
        '(index only grows, loose files disappear only when indexed), repack_pack (same keys indexed, rows of other packs '
        'untouched, every indexed pack file exists); list_all_objects lists every indexed or loose key exactly once; the bulk '
        'metadata generator answers every requested key exactly once, from the row / loose file of that key; clean_storage (no '
        'duplicate files) unlinks only loose files whose key is in the committed index re-read after the listing; delete_objects '
        'removes exactly the requested keys. Bounded: every view equals the ghost map after every step of '
        'seeded histories over all public operations and parameter combinations (incl. repack_pack of single packs followed by close).',
 'C03': 'Mixed. Proved: _write_data_to_packfile appends exactly the encoding of the object at the end of the pack; the every-change '
        'variant of add_streamed_objects_to_pack: every row inserted under the pack lock designates bytes inside the pack that '
        '(inflated) hash to the key with the recorded size, new rows lie beyond the previous end of the pack; thorough: all flag '
        'combinations and pack_all_loose. Bounded: after every step the index, packs and loose folder are re-read with sqlite3+zlib only.',
 'C05': 'Mixed. Proved (effect-point obligations on the real bodies): the loose writer renames only a closed, complete, fsynced '
        'sandbox file; pack_all_loose commits only rows whose byte ranges are in the kernel-visible pack content (pack closed) and '
        'unlinks a loose file only when its key is in the committed index; lock_pack releases the lock on every exit. Bounded: the '
        'folder is copied before every intercepted I/O call and after completion of 13 operation variants; a new handle must find '
        'every earlier object complete, no partial object under a key, never wrong bytes.',
 'C06': 'Mixed. Proved: safe_flush_to_disk forces all written bytes to stable storage on Linux/macOS/Windows profiles and leaks no '
        'descriptor; the loose writer publishes only a durable file; with do_fsync on, pack_all_loose commits only rows whose ranges '
        'are below the synced watermark. Bounded: as C05 with every regular file cut back to its content at its last fsync.',
 'C07': 'Per-function proof, for all states and arguments, that read/seek/tell of every stream class (PackedObjectReader, '
        'LazyLooseStream, the zlib decompresser incl. _read_compressed and _seek_internal, CallbackStreamWrapper, ZeroStream) refine '
        'an in-memory binary file over the object bytes (position, returned values, no byte outside the object, rejected seeks leave '
        'the position). Composition step, also proved: every stream yielded by the bulk generator behind get_object_stream / '
        'get_objects_stream_and_meta is, in the abstraction those contracts use, a stream in its initial state over exactly the '
        'byte range of its committed row in the open pack file (or the loose file of the key), whose content has the reported key '
        'as digest and the reported size; the decompresser is used exactly for compressed rows and its loose fallback is the copy of '
        'the same key. Bounded on top: random read/seek/tell programs vs io.BytesIO over all storage forms through the public API.',
 'C09': 'Mixed. Proved: ObjectWriter.__exit__ keeps a correct existing copy (same inode, no second file), replaces a damaged one, '
        '_compute_hash_for_file returns the digest of the current file content (a memoised version fails), the every-change '
        'variant of add_streamed_objects_to_pack with no_holes. Bounded: histories with recurring contents (one row / file per key, '
        'no growth and no unreferenced bytes with no_holes).',
 'C10': 'Mixed. Proved: should_compress honours YES/NO/KEEP and leaves the stream position untouched, estimate_compression restores '
        'the position, _write_data_to_packfile stores a complete zlib stream of the object iff asked; the bulk '
        'metadata generator reports the size / compressed flag / stored length of the committed row; repack_pack gives every '
        'copied row the compression its mode asks for (KEEP: unchanged, YES, NO). Bounded: flags, sizes, lengths, '
        'totals and bulk metadata after every pack/repack, chained modes.',
 'C12': 'Mixed. Proved: the hashing helpers used by validate (compute_hash_and_size, _compute_hash_for_file) return the digest and '
        'length of exactly the bytes read; _validate_hashkeys_pack (for a pack whose indexed ranges are readable) reports exactly '
        'the rows whose (inflated) bytes do not hash to their key and exactly the rows whose (inflated) length differs from the '
        'recorded size, modifies nothing and closes the pack; validate() (no callback) returns exactly: the loose files whose content '
        'does not hash to their name, the rows with wrong digest / wrong size over ONE index snapshot for all packs, and leaves '
        'nothing open. Bounded: validate() clean after every step; never clean after bit flips / index-field '
        'perturbations / loose damage that change what is read.',
 'C13': 'Mixed. Proved: _get_pack_id_to_write_to returns the first pack at or above the cached id that is absent or below target and '
        'every skipped pack is full; lock_pack opens the pack in append mode at its end under an exclusive lock; '
        '_write_data_to_packfile only appends (flushed content only grows). Bounded: pack bytes compared before/after every step.',
 'C14': 'Mixed. Proved: compute_hash_and_size (used for the destination key). Bounded: import over hash types^2 x forms x memory '
        'budgets x iterable kinds x callback.',
 'C17': 'Mixed. Proved: ObjectWriter.__exit__ under any single failing environment call leaves the previous copy or a complete '
        'one and closes the handle; a HashWriterWrapper whose previous write failed half-way refuses further writes; lock_pack '
        'releases the lock when the body raises. Bounded: each intercepted I/O call raises in turn (EIO; opens also EACCES), the store '
        'is checked through a new handle and the operation re-run.',
 'C18': 'Mixed. Proved: safe_flush_to_disk, ObjectWriter.__exit__, lock_pack, _compute_hash_for_file leave no descriptor open; a '
        'sized read of the decompresser never asks zlib for unbounded output; the bulk stream generator keeps exactly one file open '
        'at every yield, closes the file of the previous item (and a lazily opened loose copy) before the next, and leaves nothing '
        'open when it finishes or is abandoned by its consumer; close() / __exit__ release every SQLite connection of the handle '
        'whatever sessions were open. Bounded: /proc/self/fd census after every step and after close().',
 'C08': 'Mixed. Proved: list_all_objects, started with ANY session state (none, clean, or a stale snapshot pinned before another '
        'handle committed), reads the committed index as it is after its loose listing and lists every indexed or loose key exactly '
        'once (paging by primary key complete). Bounded: sequential histories over up to 3 handles on one folder; every handle '
        '(whose snapshot earlier queries pinned; existence checks issued before and after listings) must answer exactly as the ghost map.',
 'C11': 'Mixed. Proved (effect order of repack_pack on the real body): a pack file is removed/unlinked only when no COMMITTED index row '
        'points into it, every commit publishes only rows lying inside flushed and synced bytes of an existing pack, the temporary '
        'pack and the lock are gone at return, rows of other packs untouched; delete_objects (on a container without duplicate '
        'files): exactly the loose files and rows of the requested keys disappear, everything else is untouched, the returned keys '
        'are exactly the requested keys that existed, and the loose copies are gone before the index deletion is committed. Bounded: delete returns exactly the existing requested '
        'keys, others unchanged, stray duplicate files of several deleted keys removed; after a full repack every pack is the '
        'concatenation of its live ranges.',
 'C16': 'Mixed. Proved (for every request size, chunk size and both lookup strategies, on the real generator body): the bulk '
        'metadata generator yields every requested key exactly once with the metadata of its committed row or loose file, whichever '
        'of the IN-chunks / full-scan strategies is taken and however the retry after a concurrent pack goes; list_all_objects pages '
        'through the whole index; clean_storage (on a container without duplicate files) removes every listed loose file whose key '
        'is indexed and no other, under both strategies. The merge helper detect_where_sorted is proved on its real body for strictly increasing sequences of any '
        'length (every element handed out exactly once, in order, correctly classified) - which is what its callee summary states; '
        'chunk_iterator and _list_loose remain assumed summaries and are checked bounded: bulk = '
        'map(single) with the lookup thresholds lowered (requests with few and many missing keys); pack/clean over n loose objects '
        'on both sides of the thresholds; merge helpers exhaustively over all pairs of sorted unique sequences of a 6-element universe.',
}
CAT = {'C07': 'proof'}
NA = {
 'C04': 'schedules of concurrent clients: contract-based deductive verification decides properties of one call or one data structure and '
        'is silent on interleavings; the sequential ordering facts the argument rests on (commit after close/sync, unlink after commit, '
        'rename after fsync) are proved and claimed under C05/C06. No sound check of the schedules themselves was built.',
 'C15': 'schedules of a concurrent backup through rsync/sqlite3 subprocesses: outside what contracts on Python functions can express here. Not claimed.',
}
checks = []
for p in sorted(TEXT):
    cat = CAT.get(p, 'other')
    q, t = proved_units(p, 'quick'), proved_units(p, 'thorough')
    ded = ''
    if q or t:
        ded = DED_NOTE + f'Functions under checked contract in the quick tier: {", ".join(q) or "none"}. '
        if t:
            ded += f'Thorough tier only: {", ".join(t)}. '
    asm = assumed_units(p)
    if asm:
        ded += f'Assumed summaries: {", ".join(asm)}. '
    note = ded + (FAULT_NOTE if p in ('C05', 'C06', 'C17') else BOUNDED_NOTE)
    tech = ('contracts on the real functions + VC generation + z3 (pyvc)' + ('; ' if cat != 'proof' else '; composition: ')
            + 'run-time contracts over a ghost model (bounded)') if (q or t) else 'run-time contracts over a ghost model (bounded)'
    checks.append({'property_id': p, 'quick_cmd': f'python3 check.py {p} --tier quick', 'thorough_cmd': f'python3 check.py {p} --tier thorough',
                   'evidence_file': f'/verif/evidence/{p}.json', 'replay_cmd_template': '/venv/bin/python bounded/run.py --replay {path}',
                   'engine': 'pyvc+bounded' if (q or t) else 'bounded',
                   'level_claimed': {'category': cat, 'text': TEXT[p], 'design_ref': 'DESIGN.md section 0.S'},
                   'level_note': note, 'technique': tech})
ded_props = sorted(p for p in TEXT if proved_units(p))
m = {'version': 1, 'setup_cmd': 'python3 setup_check.py',
     'hooks': {'guard': 'DISK_OBJECTSTORE_VERIF', 'enable': 'no hooks are needed: contracts are sidecar files, bodies are re-read from /repo on every run, run-time contracts observe from outside the repository',
               'baseline_off_cmd': 'cd /repo && /venv/bin/python -m pytest -ra -q -p no:cacheprovider --timeout=900 --continue-on-collection-errors',
               'source_commits': [], 'add_only': True},
     'engines': [{'name': 'pyvc', 'path': '/verif/pyvc', 'serves_properties': ded_props, 'kind_free_text': 'home-made VC generator: symbolic execution of the real Python AST against sidecar contracts, environment models of files / directories / SQLite sessions, z3 back end'},
                 {'name': 'bounded', 'path': '/verif/bounded', 'serves_properties': sorted(TEXT), 'kind_free_text': 'run-time contracts over a ghost model on seeded cases (bounded stand-in)'}],
     'checks': checks,
     'notes': 'Only obligations discharged by pyvc/z3 are counted as proved; everything produced by /verif/bounded is a bounded stand-in. See DESIGN.md section 0.S.',
     'not_applicable': [{'property_id': p, 'reason': r} for p, r in sorted(NA.items())]}
json.dump(m, open(os.path.join(HERE, 'MANIFEST.json'), 'w'), indent=1)
print(len(checks), 'checks;', 'deductive units serve', ded_props)
