"""Regenerates MANIFEST.json (run by hand after changing the set of claimed properties)."""
import json
BOUNDED_NOTE = ('Bounded stand-in, never counted as proved: the container-level functions (SQLAlchemy sessions, directory '
                'operations) are outside the reach of the pyvc deductive engine, so their contracts (postconditions over a '
                'ghost key->bytes map, taken from the property statement) are evaluated at run time on the real code over '
                'seeded histories; bound = number of cases x steps given in evidence. Trusts: the ghost-model oracle in '
                '/verif/bounded, CPython, SQLite, the scratch file system (/dev/shm).')
CLAIMS = {
 'C01': ('other', 'Mixed. Proved for all inputs: the read side (PackedObjectReader, LazyLooseStream, decompresser read/tell/seek, '
         'CallbackStreamWrapper, ZeroStream) meets the in-memory-file contract, by symbolic execution of the real bodies with z3. '
         'Bounded: every write path x configuration x content class returns the digest and reads back whole/chunked/bulk.',
         'pyvc environment model and z3 trusted for the proved part; ' + BOUNDED_NOTE, 'contracts + VC generation (read side), run-time contracts (write side)'),
 'C07': ('proof', 'Per-function proof, for all states and arguments, that read/seek/tell of every stream class refine an in-memory '
         'binary file over the object bytes (position, returned value, no byte outside the object, rejected seeks leave the '
         'position). Functions whose obligations z3 cannot discharge (_read_compressed loop lemma, _seek_internal) are listed as '
         'undecided/assumed in the evidence and are covered only by the bounded stream-program differential check against io.BytesIO.',
         'pyvc subset semantics of Python, environment model of file objects and zlib, z3; _seek_internal contract assumed; '
         'composition through Container.get_object_stream is bounded only', 'sidecar contracts, symbolic execution of the real AST, z3'),
}
for p, t in {
 'C02': 'views (has/get/meta/list/count, single and bulk, every handle) equal the ghost map after every step of seeded histories over all public operations and parameter combinations',
 'C03': 'after every step the index, packs and loose folder are re-read with sqlite3 + zlib only: ranges inside packs, no overlap, unique keys, digests and sizes match',
 'C09': 'seeded histories with recurring contents: one index row / loose file per key, listing count = distinct contents, no_holes leaves no unreferenced bytes and no growth for known content',
 'C10': 'after every pack/repack: compressed flag per requested mode, size = content length, length = bytes occupied, totals are sums, content unchanged',
 'C11': 'delete returns exactly the existing requested keys, others unchanged; after a full repack every pack is the concatenation of its live ranges and empty packs are gone',
 'C12': 'validate() clean after every step of seeded histories; after single-bit flips / index-field perturbations / loose damage that change what is read, validate() is never clean',
 'C13': 'without repack: referenced bytes never change, packs never shrink below the last referenced byte, ids consecutive from 0, all but the last at target size and untouched',
 'C14': 'import over hash types^2 x forms x memory budgets x iterable kinds x callback: mapping correct, bytes identical, existing rows untouched, no second entry',
 'C16': 'bulk = map(single) with the SQL-IN / full-scan thresholds lowered so small requests cross them; merge helpers checked exhaustively over all pairs of sorted unique sequences of a 6-element universe (exhaustive for that universe) and all short unsorted inputs rejected',
 'C18': 'descriptor census of /proc/self/fd inside the container after every step and after close(); lazily opened inputs closed; safe_flush_to_disk does not grow descriptors over 40 calls',
}.items():
    CLAIMS[p] = ('exploration', 'Bounded run-time contract check on the real code: ' + t + '.', BOUNDED_NOTE, 'run-time contracts over a ghost model (bounded)')

FAULT_NOTE = ('Bounded stand-in, never counted as proved: every I/O-relevant call (module-level open/write/flush/close/truncate, '
              'os.rename/replace/link/unlink/remove/fsync/mkdir, Session.execute/commit) of ten operation variants on seeded prepared '
              'containers is intercepted from outside the repository; bound = the operations and states listed in evidence. Trusts: '
              'copying the folder before a call equals the state a killed process leaves; SQLite WAL commits are durable; directory '
              'operations survive power loss; the interception sees every I/O call the library makes.')
for p, t in {
 'C05': 'the folder is copied before every intercepted I/O call (user-space buffers lost) and a new handle must find every earlier object complete, no partial object under a key, never wrong bytes (an interrupted repack may fail loudly)',
 'C06': 'as C05, and every regular file of the copy is cut back to its content at its last fsync (empty if never synced); plus safe_flush_to_disk must fsync the flushed file and its directory for use_fullsync in {False, True}',
 'C17': 'each intercepted I/O call in turn raises OSError (OperationalError for SQL); afterwards the store is intact through a new handle and re-running the operation reaches its normal result (repack excepted)',
}.items():
    CLAIMS[p] = ('fault_enumeration', 'Bounded run-time contract check on the real code: ' + t + '.', FAULT_NOTE, 'I/O interposition + crash-state / fault postconditions (bounded)')
CLAIMS['C08'] = ('exploration', 'Bounded run-time contract check on the real code: sequential histories over up to 3 handles on one folder; after every step every handle (whose snapshot the previous round of queries pinned) must answer has/get/meta/list exactly as the ghost map.', BOUNDED_NOTE, 'run-time contracts over a ghost model (bounded)')

NA = {
 'C04': 'schedules of concurrent clients: contract-based deductive verification is silent on concurrency; the rely/guarantee design of DESIGN.md section 4 needs container-level contracts that pyvc does not reach (no SQL/directory model). No sound check was built, so the property is not claimed.',
 'C15': 'schedules of a concurrent backup (rsync/sqlite subprocesses): outside what contracts on Python functions can express here. Not claimed.',
}
import sys
extra = json.load(open('manifest_extra.json')) if len(sys.argv) > 1 else {}
checks = []
for p in sorted(CLAIMS):
    cat, text, note, tech = CLAIMS[p]
    checks.append({'property_id': p, 'quick_cmd': f'python3 check.py {p} --tier quick', 'thorough_cmd': f'python3 check.py {p} --tier thorough',
                   'evidence_file': f'/verif/evidence/{p}.json', 'replay_cmd_template': '/venv/bin/python bounded/run.py --replay {path}',
                   'engine': 'pyvc+bounded' if p in ('C01', 'C07') else 'bounded',
                   'level_claimed': {'category': cat, 'text': text, 'design_ref': 'DESIGN.md section 0 (status) and section 4'},
                   'level_note': note, 'technique': tech})
m = {'version': 1, 'setup_cmd': 'python3 setup_check.py',
     'hooks': {'guard': 'DISK_OBJECTSTORE_VERIF', 'enable': 'no hooks are needed: contracts are sidecar files, bodies are re-read from /repo on every run, run-time contracts observe from outside the repository',
               'baseline_off_cmd': 'cd /repo && /venv/bin/python -m pytest -ra -q -p no:cacheprovider --timeout=900 --continue-on-collection-errors',
               'source_commits': [], 'add_only': True},
     'engines': [{'name': 'pyvc', 'path': '/verif/pyvc', 'serves_properties': ['C01', 'C07'], 'kind_free_text': 'home-made VC generator: symbolic execution of the real Python AST against sidecar contracts, z3 back end'},
                 {'name': 'bounded', 'path': '/verif/bounded', 'serves_properties': sorted(CLAIMS), 'kind_free_text': 'run-time contracts over a ghost model on seeded cases (bounded stand-in)'}],
     'checks': checks,
     'notes': 'Only obligations discharged by pyvc/z3 are counted as proved; everything produced by /verif/bounded is a bounded stand-in. See DESIGN.md section 0.',
     'not_applicable': [{'property_id': p, 'reason': r} for p, r in sorted(NA.items())]}
json.dump(m, open('MANIFEST.json', 'w'), indent=1)
print(len(checks), 'checks')
