"""Bounded history exploration with run-time contracts over a ghost key->bytes map.

Serves (as the bounded stand-in for the container-level functions that the deductive engine does not reach):
C01 C02 C03 C09 C10 C11 C12 C13 C14 C16 C18.  Every public call on the real Container is followed by the
postconditions ("oracles") of the property under check.
"""
import contextlib
import dataclasses
import io
import os
import random
import shutil
import zlib

from common import (Violation, b2j, content_pool, digest, fd_census, raw_index, raw_loose, raw_read, scratch_root)

from disk_objectstore import CompressMode, Container
from disk_objectstore.utils import LazyOpener

MODES = [CompressMode.NO, CompressMode.YES, CompressMode.KEEP, CompressMode.AUTO]


class World:
    """One container folder, its handles, and the ghost model."""

    def __init__(self, root, cfg, pool, prop):
        self.root, self.cfg, self.pool, self.prop = root, cfg, pool, prop
        self.folder = os.path.join(root, 'c')
        self.model = {}                      # key -> bytes (ghost)
        self.ever = set()                    # keys ever seen (for absent-key probes)
        self.handles = [Container(self.folder)]
        self.handles[0].init_container(**cfg)
        if cfg.get('_small_thresholds'):
            pass
        self.no_repack_since_snapshot = True
        self.pack_snap = None
        self.max_fds = 0
        self.expect_comp = {}                # key -> True/False/None(either) for C10
        self.sources = []

    @property
    def ht(self):
        return self.cfg['hash_type']

    def key(self, b):
        return digest(self.ht, b)

    def close_all(self):
        for h in self.handles:
            h.close()
        for s in self.sources:
            s.close()


# ----------------------------------------------------------------------------------------------- oracles
ACTIVE = set()


def chk(prop, cond, msg, **data):
    if prop not in ACTIVE:
        return
    if not cond:
        raise Violation(prop, msg, data)


def oracle_views(w, c, props, probe_extra=()):
    """C02 (and the read half of C01): every view equals the ghost map."""
    P = 'C08' if 'C08' in props else 'C02' if 'C02' in props else 'C01'
    keys = sorted(w.model)
    absent = sorted((w.ever - set(w.model)) | set(probe_extra) | {w.key(b'never stored \x00\x01')})
    ask = keys + absent
    w.view_round = getattr(w, 'view_round', 0) + 1
    if P == 'C08' and w.view_round % 2 == 0:
        # (only for C08, whose histories contain no deletion/repack: after a deletion through another handle a pinned
        # snapshot legitimately still shows the object; no given property promises otherwise)
        # existence first: the listing below reloads the handle's index session and would hide a stale snapshot
        has = c.has_objects(ask)
        chk(P, has == [k in w.model for k in ask], 'has_objects (first query of the handle in this round) differs from the model',
            ask=ask, got=has)
    listed = list(c.list_all_objects())
    chk(P, sorted(listed) == keys, 'list_all_objects differs from the model', listed=sorted(listed), model=keys)
    chk('C09' if 'C09' in props else P, len(listed) == len(set(listed)), 'list_all_objects reports a key twice')
    has = c.has_objects(ask)
    chk(P, has == [k in w.model for k in ask], 'has_objects differs from the model', ask=ask, got=has)
    for k in ask:
        chk(P, c.has_object(k) == (k in w.model), f'has_object({k}) wrong')
    got = c.get_objects_content(ask, skip_if_missing=False)
    for k in ask:
        exp = w.model.get(k)
        chk(P, got.get(k) == exp, f'get_objects_content[{k}] differs from the stored bytes',
            got_len=None if got.get(k) is None else len(got[k]), exp_len=None if exp is None else len(exp))
    metas = c.get_objects_meta(ask, skip_if_missing=False)
    seen = []
    for k, m in metas:
        seen.append(k)
        if k in w.model:
            chk(P, m['type'].value in ('loose', 'packed') and m['size'] == len(w.model[k]),
                f'get_objects_meta[{k}] wrong: {m}')
        else:
            chk(P, m['type'].value == 'missing', f'get_objects_meta[{k}] should be missing: {m}')
    chk(P, sorted(seen) == sorted(ask), 'get_objects_meta did not report each distinct key exactly once')
    for k in keys[:6]:
        chk(P, c.get_object_content(k) == w.model[k], f'get_object_content({k}) differs')
        with c.get_object_stream(k) as s:
            parts = []
            while True:
                ch = s.read(40000)
                if not ch:
                    break
                parts.append(ch)
        chk(P, b''.join(parts) == w.model[k], f'chunked stream read of {k} differs')
        chk(P, c.get_object_meta(k)['size'] == len(w.model[k]), f'get_object_meta({k}) size wrong')
    for k in absent[:2]:
        try:
            c.get_object_content(k)
            chk(P, False, f'get_object_content of absent key {k} returned')
        except Exception as e:          # NotExistent
            chk(P, type(e).__name__ == 'NotExistent', f'absent key raised {type(e).__name__}')
    cnt = c.count_objects()
    idx = raw_index(w.folder)
    chk(P, cnt.packed == len(idx), 'count_objects.packed differs from the number of index rows')


def oracle_disk(w, props):
    """C03: index/packs/loose are mutually consistent, read without the library."""
    idx = raw_index(w.folder)
    keys = [r[0] for r in idx]
    chk('C03', len(keys) == len(set(keys)), 'a key is indexed twice')
    last = {}
    for r in idx:
        hk, comp, size, off, length, pid = r
        pp = os.path.join(w.folder, 'packs', str(pid))
        chk('C03', os.path.isfile(pp), f'index row of {hk} designates missing pack {pid}')
        fsz = os.path.getsize(pp)
        chk('C03', off >= 0 and length >= 0 and off + length <= fsz, f'range of {hk} outside pack {pid}',
            off=off, length=length, pack_size=fsz)
        chk('C03', off >= last.get(pid, 0), f'range of {hk} overlaps the previous one in pack {pid}')
        last[pid] = off + length
        raw = raw_read(w.folder, r)
        try:
            data = zlib.decompress(raw) if comp else raw
        except zlib.error as e:
            chk('C03', False, f'stored bytes of {hk} do not inflate: {e}')
        chk('C03', digest(w.ht, data) == hk, f'bytes designated by the index row of {hk} have another digest')
        chk('C03', len(data) == size, f'recorded size of {hk} wrong', size=size, real=len(data))
        if not comp:
            chk('C03', length == size, f'uncompressed {hk}: length != size')
        chk('C03', hk in w.model and w.model[hk] == data, f'index row {hk} not in the model')
    for k, p in raw_loose(w.folder, w.cfg['loose_prefix_len']).items():
        with open(p, 'rb') as fh:
            chk('C03', digest(w.ht, fh.read()) == k, f'loose file {k} is not named by the digest of its bytes')
    on_disk = set(keys) | set(raw_loose(w.folder, w.cfg['loose_prefix_len']))
    chk('C03', on_disk == set(w.model), 'keys on disk differ from the model', extra=sorted(on_disk - set(w.model)),
        missing=sorted(set(w.model) - on_disk))


def oracle_dedup(w, c):
    idx = raw_index(w.folder)
    loose = raw_loose(w.folder, w.cfg['loose_prefix_len'])
    chk('C09', len({r[0] for r in idx}) == len(idx), 'two index entries for one key')
    chk('C09', len(set(loose) | {r[0] for r in idx}) == len(w.model), 'object count differs from distinct contents',
        n=len(set(loose) | {r[0] for r in idx}), distinct=len(w.model))
    chk('C09', len(list(c.list_all_objects())) == len(w.model), 'listing count differs from distinct contents')
    cnt = c.count_objects()
    chk('C09', cnt.loose == len(loose) and cnt.packed == len(idx), 'count_objects differs from disk')


def oracle_sizes(w, c):
    """C10: size = content length, length = bytes occupied, totals are the sums; requested mode honoured."""
    idx = raw_index(w.folder)
    for hk, comp, size, off, length, pid in idx:
        chk('C10', size == len(w.model[hk]), f'recorded size of {hk} is not the content length')
        raw = raw_read(w.folder, (hk, comp, size, off, length, pid))
        chk('C10', len(raw) == length, f'stored length of {hk} exceeds the pack')
        chk('C10', (zlib.decompress(raw) if comp else raw) == w.model[hk], f'{hk} does not read back after (re)pack')
        exp = w.expect_comp.get(hk)
        if exp is not None:
            chk('C10', bool(comp) == exp, f'{hk}: compressed={bool(comp)} but the requested mode demands {exp}')
        m = c.get_object_meta(hk)
        if m['type'].value == 'packed':
            chk('C10', m['pack_compressed'] == bool(comp) and m['pack_length'] == length and m['size'] == size,
                f'get_object_meta({hk}) disagrees with the index: {m}')
    bulk = dict(c.get_objects_meta([r[0] for r in idx], skip_if_missing=False))
    for hk, comp, size, off, length, pid in idx:
        m = bulk.get(hk)
        chk('C10', m is not None and (m['type'].value != 'packed' or (m['pack_compressed'] == bool(comp) and m['pack_length'] == length
                                                                       and m['size'] == size and m['pack_offset'] == off)),
            f'bulk get_objects_meta of {hk} disagrees with the index: {m}')
    ts = c.get_total_size()
    chk('C10', ts.total_size_packed == sum(r[2] for r in idx), 'total_size_packed is not the sum of sizes')
    chk('C10', ts.total_size_packed_on_disk == sum(r[4] for r in idx), 'total_size_packed_on_disk is not the sum of lengths')
    loose = raw_loose(w.folder, w.cfg['loose_prefix_len'])
    chk('C10', ts.total_size_loose == sum(os.path.getsize(p) for p in loose.values()), 'total_size_loose wrong')
    pdir = os.path.join(w.folder, 'packs')
    chk('C10', ts.total_size_packfiles_on_disk == sum(os.path.getsize(os.path.join(pdir, n)) for n in os.listdir(pdir)
                                                       if n.isdigit()), 'total_size_packfiles_on_disk wrong')


def oracle_validate(w, c):
    v = dataclasses.asdict(c.validate())
    bad = {k: x for k, x in v.items() if x}
    chk('C12', not bad, f'validate() reports issues on a reachable state: {bad}')


def snap_packs(w):
    idx = raw_index(w.folder)
    end = {}
    for r in idx:
        end[r[5]] = max(end.get(r[5], 0), r[3] + r[4])
    snap = {}
    pdir = os.path.join(w.folder, 'packs')
    ids = sorted(int(n) for n in os.listdir(pdir) if n.isdigit())
    for pid in ids:
        with open(os.path.join(pdir, str(pid)), 'rb') as fh:
            snap[pid] = fh.read()
    return {'ids': ids, 'bytes': snap, 'end': end}


def oracle_layout(w, before, repacked):
    after = snap_packs(w)
    ids = after['ids']
    chk('C13', ids == list(range(len(ids))), f'pack files are not numbered consecutively from zero: {ids}')
    tgt = w.cfg['pack_size_target']
    if not repacked:
        for pid in ids[:-1]:
            chk('C13', len(after['bytes'][pid]) >= tgt, f'pack {pid} is below the target size but a higher pack exists')
        if before is not None:
            for pid in before['ids']:
                chk('C13', pid in after['bytes'], f'pack {pid} disappeared without a repack')
                e = before['end'].get(pid, 0)
                chk('C13', len(after['bytes'][pid]) >= e, f'pack {pid} shrank below its last referenced byte')
                chk('C13', after['bytes'][pid][:e] == before['bytes'][pid][:e], f'referenced bytes of pack {pid} changed')
                if pid != before['ids'][-1]:
                    chk('C13', after['bytes'][pid] == before['bytes'][pid], f'full pack {pid} was written again')
    return after


def oracle_fds(w):
    n = len(fd_census(w.folder))
    w.max_fds = max(w.max_fds, n)
    # between operations: at most the SQLite connection(s) of each handle (db, -wal, -shm per engine) may stay open
    lim = 8 * (len(w.handles) + len(w.sources))
    chk('C18', n <= lim, f'{n} descriptors open inside the container between operations (limit {lim})',
        fds=fd_census(w.folder))
    for fd, t in fd_census(w.folder):
        chk('C18', 'packs.idx' in t, f'a non-index file is still open between operations: {t}')


# ----------------------------------------------------------------------------------------------- operations
def gen_op(rng, w, weights):
    kinds = list(weights)
    k = rng.choices(kinds, [weights[x] for x in kinds])[0]
    n = len(w.pool)
    hi = rng.randrange(len(w.handles))
    if k == 'add_loose':
        return {'op': k, 'h': hi, 'c': rng.randrange(n), 'streamed': rng.random() < .5}
    if k == 'add_pack':
        m = rng.choice([1, 1, 2, 3, 4, 5])
        return {'op': k, 'h': 0, 'cs': [rng.randrange(n) for _ in range(m)], 'compress': rng.random() < .5,
                'no_holes': rng.random() < .5, 'twice': rng.random() < .5, 'streamed': rng.random() < .5,
                'single': m == 1 and rng.random() < .5, 'open_streams': rng.random() < .3}
    if k == 'pack_all_loose':
        return {'op': k, 'h': 0, 'mode': rng.choice([0, 1, 2, 3, True, False]), 'validate': rng.random() < .5,
                'per_pack': rng.random() < .5}
    if k == 'clean':
        return {'op': k, 'h': 0, 'vacuum': rng.random() < .3}
    if k == 'repack':
        # the whole container, or one pack through the public repack_pack(); sometimes followed by closing the handle
        return {'op': k, 'h': 0, 'mode': rng.randrange(4), 'single_pack': rng.random() < .4, 'pick': rng.random(),
                'then_close': rng.random() < .5}
    if k == 'delete':
        return {'op': k, 'h': 0, 'present': rng.randrange(0, 4), 'absent': rng.randrange(0, 2), 'r': rng.random()}
    if k == 'loosen':
        return {'op': k, 'h': hi, 'r': rng.random()}
    if k == 'import':
        return {'op': k, 'h': 0, 'cs': [rng.randrange(n) for _ in range(rng.randrange(1, 6))],
                'src_hash': rng.choice(['sha1', 'sha256']), 'src_packed': rng.choice(['loose', 'packed', 'zpacked', 'mixed']),
                'compress': rng.random() < .5, 'mem': rng.choice([1, 50, 3500, 100_000, 10 ** 9]),
                'iter': rng.choice(['list', 'tuple', 'set', 'gen']), 'callback': rng.random() < .5,
                'absent': rng.random() < .4, 'repeat': rng.random() < .4}
    if k == 'reopen':
        return {'op': k, 'h': hi}
    if k == 'new_handle':
        return {'op': k}
    if k == 'reinit':
        return {'op': k, 'h': hi}
    raise AssertionError(k)


def apply_op(w, op, props):
    """Execute one operation on the real container; update the ghost model; check the operation's own postconditions."""
    c = w.handles[op.get('h', 0) % len(w.handles)]
    pool = w.pool
    k = op['op']
    repacked = False
    if k == 'add_loose':
        b = pool[op['c']]
        key = c.add_streamed_object(io.BytesIO(b)) if op['streamed'] else c.add_object(b)
        chk('C01', key == w.key(b), 'add (loose) returned a key that is not the digest of the bytes', got=key)
        w.model[key] = b
    elif k == 'add_pack':
        bs = [pool[i] for i in op['cs']]
        idx0 = {r[0]: r for r in raw_index(w.folder)}
        sizes0 = {pid: len(x) for pid, x in snap_packs(w)['bytes'].items()} if 'C09' in props else {}
        kw = dict(compress=op['compress'], no_holes=op['no_holes'], no_holes_read_twice=op['twice'])
        if op['single']:
            if op['streamed']:
                keys = [c.add_streamed_object_to_pack(io.BytesIO(bs[0]), **kw)]
            else:
                keys = c.add_objects_to_pack(bs[:1], **kw)
        elif op['streamed']:
            if op['open_streams']:
                tmpd = os.path.join(w.root, 'instreams')
                os.makedirs(tmpd, exist_ok=True)
                paths = []
                for i, b in enumerate(bs):
                    p = os.path.join(tmpd, f's{i}')
                    with open(p, 'wb') as fh:
                        fh.write(b)
                    paths.append(p)
                keys = c.add_streamed_objects_to_pack([LazyOpener(p) for p in paths], open_streams=True, **kw)
                chk('C18', not fd_census(tmpd), 'lazily opened input streams are still open after the call')
            else:
                keys = c.add_streamed_objects_to_pack([io.BytesIO(b) for b in bs], **kw)
        else:
            keys = c.add_objects_to_pack(bs, **kw)
        chk('C01', keys == [w.key(b) for b in bs], 'direct-to-pack returned keys that are not the digests', got=keys)
        for key, b in zip(keys, bs):
            w.model[key] = b
        if 'C09' in props and op['no_holes']:
            idx1 = {r[0]: r for r in raw_index(w.folder)}
            new = [r for hk, r in idx1.items() if hk not in idx0]
            sizes1 = {pid: len(x) for pid, x in snap_packs(w)['bytes'].items()}
            growth = sum(sizes1.values()) - sum(sizes0.values())
            chk('C09', growth == sum(r[4] for r in new),
                'no_holes: the packs grew by more than the stored length of the new objects (unreferenced bytes left)',
                growth=growth, new=sum(r[4] for r in new))
        if 'C10' in props:
            idx1 = {r[0]: r for r in raw_index(w.folder)}
            for key in keys:
                if key not in idx0 and key in idx1:
                    w.expect_comp[key] = bool(op['compress'])
    elif k == 'pack_all_loose':
        mode = op['mode'] if isinstance(op['mode'], bool) else MODES[op['mode']]
        idx0 = {r[0] for r in raw_index(w.folder)}
        loose0 = set(raw_loose(w.folder, w.cfg['loose_prefix_len']))
        c.pack_all_loose(compress=mode, validate_objects=op['validate'], clean_loose_per_pack=op['per_pack'])
        idx1 = {r[0]: r for r in raw_index(w.folder)}
        chk('C16', loose0 <= set(idx1), 'pack_all_loose did not pack every loose object (bulk != each)')
        for key in loose0 - idx0:
            # KEEP for a loose source means "as it was": uncompressed
            w.expect_comp[key] = {True: True, False: False, CompressMode.YES: True, CompressMode.NO: False,
                                  CompressMode.KEEP: False, CompressMode.AUTO: None}[mode]
    elif k == 'clean':
        c.clean_storage(vacuum=op['vacuum'])
        idx = {r[0] for r in raw_index(w.folder)}
        left = set(raw_loose(w.folder, w.cfg['loose_prefix_len']))
        chk('C16', not (left & idx), 'clean_storage did not clean every packed loose object (bulk != each)')
    elif k == 'repack':
        mode = MODES[op['mode']]
        idx0 = {r[0]: r for r in raw_index(w.folder)}
        packs0 = sorted({r[5] for r in idx0.values()})
        if op.get('single_pack') and packs0:
            pid = packs0[int(op['pick'] * len(packs0)) % len(packs0)]
            c.repack_pack(str(pid), compress_mode=mode)
            touched = {hk: r for hk, r in idx0.items() if r[5] == pid}
            if op.get('then_close'):
                c.close()          # the operation must be complete (committed) when it returns
        else:
            c.repack(compress_mode=mode)
            touched = idx0
        repacked = True
        for hk, r in touched.items():
            w.expect_comp[hk] = {CompressMode.YES: True, CompressMode.NO: False, CompressMode.KEEP: bool(r[1]),
                                 CompressMode.AUTO: None}[mode]
        if ('C11' in props or 'C10' in props) and not op.get('single_pack'):
            oracle_repacked_layout(w)
    elif k == 'delete':
        r = random.Random(op['r'])
        present = r.sample(sorted(w.model), min(op['present'], len(w.model)))
        absent = [w.key(b'absent %d' % i) for i in range(op['absent'])]
        ask = present + absent
        r.shuffle(ask)
        others = {kk: v for kk, v in w.model.items() if kk not in present}
        dupdir = os.path.join(w.folder, 'duplicates')
        planted = []
        if 'C11' in props and r.random() < .6:
            # stray duplicate files, as the loose writer leaves them when it cannot replace an existing file (Windows):
            # duplicates/<key>.<uuid>, here with the object's own bytes, for several of the keys at once
            import uuid as _uuid
            for kk in present + sorted(others)[:1]:
                for _ in range(r.randrange(1, 3)):
                    fn = f'{kk}.{_uuid.UUID(int=r.getrandbits(128)).hex}'
                    with open(os.path.join(dupdir, fn), 'wb') as fh:
                        fh.write(w.model[kk])
                    planted.append((kk, fn))
        ret = c.delete_objects(ask)
        left = set(os.listdir(dupdir))
        for kk, fn in planted:
            if kk in present:
                chk('C11', fn not in left, f'delete_objects left the stray duplicate {fn[:16]}.. of a deleted object (form: with duplicates)')
            else:
                chk('C11', fn in left, 'delete_objects removed a duplicate of an object that was not requested')
        if planted:
            c.clean_storage()       # must cope with the remaining duplicates (of live objects) and remove them
            chk('C11', not [f for f in os.listdir(dupdir) if '.' in f and not f.startswith('.')],
                'clean_storage left duplicates of live objects behind')
        chk('C11', sorted(ret) == sorted(present), 'delete_objects did not return exactly the requested keys that existed',
            ret=sorted(ret), expected=sorted(present))
        for kk in present:
            del w.model[kk]
            w.expect_comp.pop(kk, None)
            w.ever.add(kk)
        chk('C11', w.model == others, 'model bookkeeping')
    elif k == 'loosen':
        idx = [r[0] for r in raw_index(w.folder)]
        if idx:
            hk = random.Random(op['r']).choice(idx)
            p = c.loosen_object(hk)
            with open(p, 'rb') as fh:
                chk('C02', fh.read() == w.model[hk], 'loosen_object wrote a loose copy with other bytes')
    elif k == 'import':
        do_import(w, c, op, props)
    elif k == 'reopen':
        i = op['h'] % len(w.handles)
        w.handles[i].close()
        chk('C18', not [t for fd, t in fd_census(w.folder)] or len(w.handles) > 1,
            'descriptors inside the container survive close()', fds=fd_census(w.folder))
        w.handles[i] = Container(w.folder)
    elif k == 'new_handle':
        if len(w.handles) < 3:
            w.handles.append(Container(w.folder))
    elif k == 'reinit':
        try:
            c.init_container(**w.cfg)
            chk('C02', False, 're-initialisation of an initialised container was not refused')
        except Violation:
            raise
        except Exception:
            pass
    else:
        raise AssertionError(k)
    w.ever |= set(w.model)
    return repacked


def oracle_repacked_layout(w):
    """C11: after a full repack each pack file is the concatenation of its live objects' stored bytes."""
    idx = raw_index(w.folder)
    per = {}
    for r in idx:
        per.setdefault(r[5], []).append(r)
    pdir = os.path.join(w.folder, 'packs')
    ids = sorted(int(n) for n in os.listdir(pdir) if n.isdigit())
    for pid in ids:
        chk('C11', pid in per, f'pack {pid} has no live object after a full repack but still exists')
        with open(os.path.join(pdir, str(pid)), 'rb') as fh:
            data = fh.read()
        pos = 0
        for r in sorted(per[pid], key=lambda r: r[3]):
            chk('C11', r[3] == pos, f'pack {pid} has unreferenced bytes before offset {r[3]} after a full repack', hole_at=pos)
            pos = r[3] + r[4]
        chk('C11', pos == len(data), f'pack {pid} has {len(data) - pos} unreferenced trailing bytes after a full repack')
    chk('C11', not os.path.exists(os.path.join(pdir, '-1')), 'temporary repack pack left behind')


def do_import(w, c, op, props):
    sf = os.path.join(w.root, f'src{len(w.sources)}')
    s = Container(sf)
    s.init_container(hash_type=op['src_hash'], pack_size_target=w.cfg['pack_size_target'],
                     loose_prefix_len=w.cfg['loose_prefix_len'])
    w.sources.append(s)
    bs = [w.pool[i] for i in op['cs']]
    skeys = []
    for i, b in enumerate(bs):
        how = op['src_packed']
        if how == 'mixed':
            how = ['loose', 'packed', 'zpacked'][i % 3]
        if how == 'loose':
            skeys.append(s.add_object(b))
        else:
            skeys.append(s.add_objects_to_pack([b], compress=(how == 'zpacked'))[0])
    req = list(skeys)
    if op['absent']:
        req.insert(len(req) // 2, digest(op['src_hash'], b'not in source'))
    if op['repeat'] and op['iter'] != 'set':
        req = req + req[:2]
    it = {'list': list, 'tuple': tuple, 'set': set, 'gen': lambda x: (y for y in x)}[op['iter']](req)
    calls = []
    cb = (lambda action, value: calls.append((action, value))) if op['callback'] else None
    idx0 = {r[0]: r for r in raw_index(w.folder)}
    before = dict(w.model)
    ret = c.import_objects(it, s, compress=op['compress'], target_memory_bytes=op['mem'], callback=cb)
    src_map = dict(zip(skeys, bs))
    for sk, dk in ret.items():
        chk('C14', sk in src_map, f'import returned a mapping for {sk}, which the source does not hold')
        chk('C14', dk == w.key(src_map[sk]), f'import maps {sk} to {dk}, not to the destination digest of its content')
    if op['src_hash'] != w.ht:
        chk('C14', set(ret) == set(skeys), 'import (different hash types) did not map every requested present key',
            got=sorted(ret), want=sorted(skeys))
    for b in bs:
        w.model[w.key(b)] = b
    idx1 = {r[0]: r for r in raw_index(w.folder)}
    for hk, r in idx0.items():
        chk('C14', idx1.get(hk) == r, f'import touched the existing index entry of {hk}')
    for b in bs:
        k2 = w.key(b)
        got = c.get_object_content(k2)
        chk('C14', got == b, f'imported object {k2} does not read back identically')
    if op['src_hash'] == w.ht:
        # objects the destination already had are not written again: packs grow only by the new entries
        pass
    for kk, v in before.items():
        chk('C14', w.model[kk] == v, 'model bookkeeping')


# ----------------------------------------------------------------------------------------------- C16
def oracle_bulk(w, c, rng):
    """C16: bulk == map(single) over distinct keys, for request sizes on both sides of the (lowered) thresholds."""
    keys = sorted(w.model)
    absent = [w.key(b'missing %d' % i) for i in range(12)]
    for n in (0, 1, 2, 3, 4, 5, 6, 7, 11, 12, 13, 25, -1, -2):
        base = [rng.choice(keys) for _ in range(abs(n) * 3 if n < 0 else n)] if keys else []
        # n < 0: many missing keys together with present ones (the number of not-found keys crosses the thresholds too)
        req = base + rng.sample(absent, min(len(absent), rng.randrange(7, 13) if n < 0 else rng.randrange(0, 4)))
        if req and rng.random() < .5:
            req += [rng.choice(req)]
        rng.shuffle(req)
        dist = sorted(set(req))
        single_has = {k: c.has_object(k) for k in dist}
        chk('C16', c.has_objects(req) == [single_has[k] for k in req], 'has_objects != map(has_object)', req=req)
        for skip in (True, False):
            got = c.get_objects_content(req, skip_if_missing=skip)
            exp = {k: w.model.get(k) for k in dist if (k in w.model or not skip)}
            chk('C16', got == exp, f'get_objects_content(skip_if_missing={skip}) != map(single)', n=len(req))
            metas = list(c.get_objects_meta(req, skip_if_missing=skip))
            mk = [k for k, _ in metas]
            chk('C16', sorted(mk) == sorted(exp), f'get_objects_meta(skip_if_missing={skip}) reports keys {len(mk)} != distinct {len(exp)}',
                req=req, got=mk)
            for k, m in metas:
                sm = c.get_object_meta(k) if k in w.model else None
                if sm is not None:
                    chk('C16', m['size'] == sm['size'] and m['type'] == sm['type'], f'bulk meta of {k} != single meta')
            seen = []
            with c.get_objects_stream_and_meta(req, skip_if_missing=skip) as triplets:
                for k, s, m in triplets:
                    seen.append(k)
                    if k in w.model:
                        chk('C16', s.read() == w.model[k], f'bulk stream of {k} differs')
                    else:
                        chk('C16', s is None, f'bulk stream of missing {k} is not None')
            chk('C16', sorted(seen) == sorted(exp), 'get_objects_stream_and_meta did not yield each distinct key once')


# ----------------------------------------------------------------------------------------------- driver
WEIGHTS = {
    'default': {'add_loose': 5, 'add_pack': 4, 'pack_all_loose': 3, 'clean': 2, 'repack': 1.5, 'delete': 1.5, 'loosen': 1,
                'import': 1, 'reopen': 1, 'new_handle': .3, 'reinit': .3},
    'C08': {'add_loose': 8, 'pack_all_loose': 4, 'clean': 4, 'new_handle': 3, 'reopen': .5, 'add_pack': 1},
    'C13': {'add_loose': 5, 'add_pack': 6, 'pack_all_loose': 3, 'clean': 2, 'import': 1.5, 'reopen': 1.5, 'new_handle': .3},
    'C09': {'add_loose': 6, 'add_pack': 7, 'pack_all_loose': 3, 'clean': 2, 'import': 1, 'reopen': 1, 'loosen': 1},
    'C14': {'add_loose': 2, 'add_pack': 2, 'pack_all_loose': 1, 'import': 6, 'reopen': .5},
    'C11': {'add_loose': 4, 'add_pack': 4, 'pack_all_loose': 3, 'clean': 1, 'delete': 4, 'repack': 3, 'loosen': 1},
    'C10': {'add_loose': 5, 'add_pack': 3, 'pack_all_loose': 4, 'clean': 2, 'repack': 4, 'reopen': .5},
    'C16': {'add_loose': 9, 'add_pack': 3, 'pack_all_loose': 4, 'clean': 4, 'import': 1, 'delete': 1, 'repack': .5},
}


def gen_cfg(rng, prop):
    return {'pack_size_target': rng.choice([1, 500, 4000, 100_000, 4 * 1024 ** 3]),
            'loose_prefix_len': rng.choice([0, 1, 2, 3]), 'hash_type': rng.choice(['sha1', 'sha256']),
            'compression_algorithm': 'zlib+%d' % rng.choice([1, 1, 6, 9, rng.randrange(1, 10)])}


@contextlib.contextmanager
def lowered_thresholds(on):
    old = (Container._IN_SQL_MAX_LENGTH, Container._MAX_CHUNK_ITERATE_LENGTH)
    if on:
        Container._IN_SQL_MAX_LENGTH, Container._MAX_CHUNK_ITERATE_LENGTH = 3, 6
    try:
        yield
    finally:
        Container._IN_SQL_MAX_LENGTH, Container._MAX_CHUNK_ITERATE_LENGTH = old


def run_history(prop, seed, index, nsteps, big=False, stop_after=None, record=None):
    """Generate and run history number `index` of `seed`; raises Violation. Returns a description."""
    rng = random.Random(f'{prop}/{seed}/{index}')
    pool = content_pool(random.Random(f'pool/{seed}/{index}'), big=big and index % 4 == 0)
    cfg = gen_cfg(rng, prop)
    root = scratch_root()
    props = {prop}
    ACTIVE.clear()
    ACTIVE.update({prop, 'C02'} if prop == 'C11' else {prop})
    ops = []
    low = (prop in ('C16', 'C02', 'C09', 'C14', 'C01', 'C10', 'C08', 'C03') and index % 2 == 0)
    desc = {'cfg': cfg, 'ops': ops, 'lowered_thresholds': low}
    if record is not None:
        record.update(desc)
    try:
        with lowered_thresholds(low):
            w = World(root, cfg, pool, prop)
            weights = WEIGHTS.get(prop, WEIGHTS['default'])
            before = snap_packs(w) if prop == 'C13' else None
            for step in range(nsteps):
                op = gen_op(rng, w, weights)
                ops.append(op)
                desc['failing_step'] = step
                repacked = apply_op(w, op, props)
                for c in w.handles[:1] if prop not in ('C02', 'C08') else w.handles:
                    if prop in ('C01', 'C02', 'C08'):
                        oracle_views(w, c, props)
                if prop == 'C03':
                    oracle_disk(w, props)
                if prop == 'C09':
                    oracle_dedup(w, w.handles[0])
                    oracle_disk(w, props | {'C03'}) if False else None
                if prop == 'C10':
                    oracle_sizes(w, w.handles[0])
                if prop == 'C11':
                    oracle_views(w, w.handles[0], {'C11', 'C02'}) if op['op'] in ('delete', 'repack') else None
                if prop == 'C12':
                    oracle_validate(w, w.handles[0])
                if prop == 'C13':
                    before = oracle_layout(w, before, repacked)
                if prop == 'C14' and op['op'] == 'import':
                    oracle_dedup(w, w.handles[0])
                if prop == 'C16':
                    oracle_bulk(w, w.handles[0], rng)
                if prop == 'C18':
                    oracle_fds(w)
                if stop_after is not None and step >= stop_after:
                    break
            desc.pop('failing_step', None)
            desc['final_keys'] = len(w.model)
            desc['kinds'] = sorted({o['op'] for o in ops})
            if prop == 'C12':
                damage_checks(w, rng, desc)
            w.close_all()
            if prop == 'C18':
                left = fd_census(root)
                chk('C18', not left, 'descriptors inside the container folder are still open after close()', fds=left)
                desc['max_fds_between_ops'] = w.max_fds
    finally:
        try:
            w.close_all()
        except Exception:
            pass
        shutil.rmtree(root, ignore_errors=True)
    return desc


# ----------------------------------------------------------------------------------------------- C12 negative half
def damage_checks(w, rng, desc):
    """After the history: damage one referenced byte / one index field / one loose file; validate must not be clean."""
    for h in w.handles:
        h.close()
    idx = raw_index(w.folder)
    loose = raw_loose(w.folder, w.cfg['loose_prefix_len'])
    done = []
    import sqlite3
    trials = []
    for r in rng.sample(idx, min(3, len(idx))):
        if r[4] > 0:
            trials.append(('flip', r))
        trials.append((rng.choice(['size', 'length', 'offset', 'compressed']), r))
    for k in rng.sample(sorted(loose), min(2, len(loose))):
        trials.append(('loose', k))
    for kind, target in trials:
        bak = os.path.join(w.root, 'bak')
        shutil.rmtree(bak, ignore_errors=True)
        shutil.copytree(w.folder, bak)
        changed = True
        if kind == 'flip':
            hk, comp, size, off, length, pid = target
            p = os.path.join(w.folder, 'packs', str(pid))
            pos = off + rng.randrange(length)
            with open(p, 'r+b') as fh:
                fh.seek(pos)
                b = fh.read(1)
                fh.seek(pos)
                fh.write(bytes([b[0] ^ (1 << rng.randrange(8))]))
        elif kind == 'loose':
            p = loose[target]
            with open(p, 'rb') as fh:
                data = fh.read()
            with open(p, 'wb') as fh:
                fh.write(data[:-1] if data and rng.random() < .5 else data + b'!')
        else:
            hk, comp, size, off, length, pid = target
            con = sqlite3.connect(os.path.join(w.folder, 'packs.idx'))
            new = {'size': size + 1, 'length': length + 1, 'offset': off + 1, 'compressed': 0 if comp else 1}[kind]
            con.execute(f'UPDATE db_object SET {kind}=? WHERE hashkey=?', (new, hk))
            con.commit()
            con.close()
        # does the damage make the object unreadable / different / disagree with its recorded size?
        c = Container(w.folder)
        effective = False
        key = target if kind == 'loose' else target[0]
        try:
            got = c.get_object_content(key)
            meta = c.get_object_meta(key)
            effective = got != w.model[key] or meta['size'] != len(got)
        except Exception:
            effective = True
        if effective:
            try:
                v = dataclasses.asdict(c.validate())
                clean = not any(v.values())
            except Exception:
                clean = False
            c.close()
            if clean:
                shutil.rmtree(w.folder)
                shutil.move(bak, w.folder)
                raise Violation('C12', f'validate() is clean although {kind} damage of {key} changes what is read', {'kind': kind})
            done.append(kind)
        else:
            c.close()
        shutil.rmtree(w.folder)
        shutil.move(bak, w.folder)
    desc['damage_trials'] = done
