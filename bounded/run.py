"""Bounded (run-time contract) part of a check.  /venv/bin/python bounded/run.py <PROP> --tier quick --seed N --out file.json
   Replay:  /venv/bin/python bounded/run.py --replay <replay.json>
Writes a JSON summary; never prints VIOLATION lines itself (check.py does)."""
import argparse
import json
import multiprocessing as mp
import os
import sys
import time
import traceback

sys.path.insert(0, os.path.dirname(os.path.abspath(__file__)))
from common import Violation, write_replay  # noqa: E402

# property -> list of (family, quick count, thorough count, steps)
PLAN = {
    'C01': [('hist', 48, 400, 8), ('roundtrip', 60, 400, 0)],
    'C02': [('hist', 120, 1200, 14)],
    'C03': [('hist', 120, 1200, 14)],
    'C04': [('interfere', 24, 200, 0)],
    'C05': [('crash', 52, 260, 0)],
    'C06': [('crash', 44, 220, 0), ('fdsync', 4, 16, 0)],
    'C07': [('streamprog', 120, 1200, 0)],
    'C08': [('hist', 120, 1200, 14)],
    'C09': [('hist', 120, 1200, 14)],
    'C10': [('hist', 96, 900, 12)],
    'C11': [('hist', 96, 900, 14)],
    'C12': [('hist', 96, 150, 10)],   # (thorough: the damage oracle re-validates after every flip of every object: minutes per big history)
    'C13': [('hist', 120, 1200, 14)],
    'C14': [('hist', 96, 900, 8)],
    'C15': [('backup', 10, 60, 0)],
    'C16': [('hist', 28, 300, 9), ('merge', 1, 1, 0), ('cleanbulk', 10, 57, 0)],
    'C17': [('fault', 52, 260, 0)],
    'C18': [('hist', 96, 900, 14), ('fdsync', 4, 16, 0)],
}


def run_case(args):
    prop, family, seed, index, steps, tier = args
    t0 = time.time()
    rec = {}
    try:
        if family == 'hist':
            import hist
            d = hist.run_history(prop, seed, index, steps, big=(tier == 'thorough'), record=rec)
        elif family in ('roundtrip', 'streamprog', 'merge', 'fdsync', 'cleanbulk'):
            import units
            d = getattr(units, family)(prop, seed, index, tier)
        elif family in ('crash', 'fault'):
            import crash
            d = crash.run(prop, family, seed, index, tier)
        elif family in ('interfere', 'handles', 'backup'):
            import multi
            d = getattr(multi, family)(prop, seed, index, tier)
        else:
            raise AssertionError(family)
        return {'ok': True, 'family': family, 'index': index, 'desc': d, 'wall': time.time() - t0}
    except Violation as v:
        rec.update(v.data.get('_desc', {}))
        return {'ok': False, 'family': family, 'index': index, 'prop': v.prop, 'msg': v.msg,
                'data': {k: x for k, x in v.data.items() if k != '_desc'}, 'desc': rec, 'wall': time.time() - t0}
    except Exception as e:
        tb = traceback.extract_tb(e.__traceback__)
        repo = os.environ.get('VERIF_REPO', '/repo')
        if tb and tb[-1].filename.startswith(os.path.join(repo, 'disk_objectstore')):
            # the real code raised on a legal call of a case generated for this property: the operation did not complete
            return {'ok': False, 'family': family, 'index': index, 'prop': prop,
                    'msg': f'legal operation raised {type(e).__name__}: {str(e)[:200]} at {os.path.basename(tb[-1].filename)}:{tb[-1].lineno}',
                    'data': {'traceback': ''.join(traceback.format_exception(e))[-2500:]}, 'desc': rec, 'wall': time.time() - t0}
        return {'ok': None, 'family': family, 'index': index, 'error': ''.join(traceback.format_exception(e))[-3000:],
                'desc': rec, 'wall': time.time() - t0}


def signature(d):
    """What makes two cases distinct: the multiset of operation kinds + configuration (histories), or the case's own key."""
    if isinstance(d, dict):
        if 'sig' in d:
            return json.dumps(d['sig'], sort_keys=True, default=str)
        return json.dumps({'cfg': d.get('cfg'), 'ops': d.get('ops')}, sort_keys=True, default=str)
    return repr(d)


def nontrivial(d):
    if isinstance(d, dict):
        if 'nontrivial' in d:
            return bool(d['nontrivial'])
        if 'ops' in d:
            return len({o['op'] for o in d['ops']}) >= 3 and d.get('final_keys', 0) >= 2
    return True


def main():
    ap = argparse.ArgumentParser()
    ap.add_argument('prop', nargs='?')
    ap.add_argument('--tier', default='quick')
    ap.add_argument('--seed', type=int, default=0)
    ap.add_argument('--out')
    ap.add_argument('--replay')
    ap.add_argument('--jobs', type=int, default=min(14, os.cpu_count() or 4))
    a = ap.parse_args()
    if a.replay:
        r = json.load(open(a.replay))
        if 'bounded_case' not in r:
            print('this replay file carries a failed proof obligation without a concrete input:')
            print(json.dumps(r, indent=1)[:4000])
            return 0
        bc = r['bounded_case']
        res = run_case((bc['prop'], bc['family'], bc['seed'], bc['index'], bc['steps'], bc['tier']))
        print(json.dumps({k: res.get(k) for k in ('ok', 'prop', 'msg', 'data', 'error')}, indent=1, default=str)[:6000])
        return 1 if res['ok'] is False else 0
    t0 = time.time()
    cases = []
    for family, q, t, steps in PLAN[a.prop]:
        n = q if a.tier == 'quick' else t
        cases += [(a.prop, family, a.seed, i, steps, a.tier) for i in range(n)]
    with mp.Pool(a.jobs, maxtasksperchild=8) as pool:
        results = pool.map(run_case, cases, chunksize=1)
    viol, errs, sigs, samples = [], [], set(), []
    nontriv = set()
    for c, r in zip(cases, results):
        if r['ok'] is False:
            path = write_replay(r['prop'], {'property': r['prop'], 'message': r['msg'], 'data': r['data'], 'case': r['desc'],
                                            'bounded_case': {'prop': c[0], 'family': c[1], 'seed': c[2], 'index': c[3],
                                                             'steps': c[4], 'tier': c[5]},
                                            'how': 'python bounded/run.py --replay <this file> re-runs the case on /repo'})
            viol.append({'prop': r['prop'], 'msg': r['msg'], 'replay': path, 'family': r['family'], 'index': r['index']})
        elif r['ok'] is None:
            errs.append({'family': r['family'], 'index': r['index'], 'error': r['error']})
        else:
            s = signature(r['desc'])
            sigs.add(s)
            if nontrivial(r['desc']):
                nontriv.add(s)
            if len(samples) < 3:
                samples.append(r['desc'])
    out = {'prop': a.prop, 'tier': a.tier, 'seed': a.seed, 'evaluations': len(cases), 'distinct': len(sigs),
           'distinct_nontrivial': len(nontriv), 'samples': samples, 'violations': viol, 'errors': errs,
           'families': [f[0] for f in PLAN[a.prop]], 'wall': time.time() - t0}
    if a.out:
        json.dump(out, open(a.out, 'w'), default=str)
    else:
        print(json.dumps({k: v for k, v in out.items() if k != 'samples'}, indent=1, default=str)[:5000])
    return 0


if __name__ == '__main__':
    sys.exit(main())
