"""Bounded run-time contract checks of single functions / single calls (C01 round trip, C07 stream programs,
C16 merge helpers (exhaustive over a small universe), C18/C06 safe_flush_to_disk)."""
import io
import itertools
import os
import random
import shutil
from pathlib import Path

from common import Violation, content_pool, digest, fd_census, scratch_root

from disk_objectstore import Container
from disk_objectstore import utils as U


def chk(prop, cond, msg, **data):
    if not cond:
        raise Violation(prop, msg, data)


def _cfg(rng):
    return {'pack_size_target': rng.choice([1, 3000, 200_000, 4 * 1024 ** 3]), 'loose_prefix_len': rng.choice([0, 1, 2, 3]),
            'hash_type': rng.choice(['sha1', 'sha256']), 'compression_algorithm': 'zlib+%d' % rng.randrange(1, 10)}


WRITE_PATHS = ['add_object', 'add_streamed_object', 'pack_single', 'pack_single_z', 'pack_batch', 'pack_batch_z',
               'pack_stream_single', 'pack_stream_batch_z', 'pack_stream_noholes', 'pack_noholes_once']


def _store(c, path, b, others):
    """Store b through the named write path (with neighbours `others` in the same batch where applicable)."""
    batch = others[:1] + [b] + others[1:]
    if path == 'add_object':
        return c.add_object(b)
    if path == 'add_streamed_object':
        return c.add_streamed_object(io.BytesIO(b))
    if path == 'pack_single':
        return c.add_objects_to_pack([b])[0]
    if path == 'pack_single_z':
        return c.add_objects_to_pack([b], compress=True)[0]
    if path == 'pack_batch':
        return c.add_objects_to_pack(batch)[min(1, len(others[:1]))]
    if path == 'pack_batch_z':
        return c.add_objects_to_pack(batch, compress=True)[min(1, len(others[:1]))]
    if path == 'pack_stream_single':
        return c.add_streamed_object_to_pack(io.BytesIO(b))
    if path == 'pack_stream_batch_z':
        return c.add_streamed_objects_to_pack([io.BytesIO(x) for x in batch], compress=True)[min(1, len(others[:1]))]
    if path == 'pack_stream_noholes':
        return c.add_streamed_objects_to_pack([io.BytesIO(x) for x in batch], no_holes=True)[min(1, len(others[:1]))]
    if path == 'pack_noholes_once':
        c.add_objects_to_pack(others[:1])
        return c.add_objects_to_pack(batch, no_holes=True, no_holes_read_twice=False, compress=True)[min(1, len(others[:1]))]
    raise AssertionError(path)


def roundtrip(prop, seed, index, tier):
    rng = random.Random(f'rt/{seed}/{index}')
    pool = content_pool(rng, big=(tier == 'thorough' or index % 8 == 0))
    cfg = _cfg(rng)
    path = WRITE_PATHS[index % len(WRITE_PATHS)]
    b = pool[(index // len(WRITE_PATHS) + rng.randrange(len(pool))) % len(pool)]
    others = [rng.choice(pool[:6]), rng.choice(pool[:6])]
    root = scratch_root()
    try:
        c = Container(os.path.join(root, 'c'))
        c.init_container(**cfg)
        key = _store(c, path, b, others)
        chk('C01', key == digest(cfg['hash_type'], b), f'{path}: returned key is not the digest of the bytes', got=key)
        chk('C01', c.get_object_content(key) == b, f'{path}: get_object_content differs')
        for cs in (1 if len(b) < 200 else 4097, 65536, 65537, 524288, 524289):
            with c.get_object_stream(key) as s:
                parts = []
                while True:
                    ch = s.read(cs)
                    if not ch:
                        break
                    chk('C01', len(ch) <= cs, 'read(n) returned more than n bytes')
                    parts.append(ch)
            chk('C01', b''.join(parts) == b, f'{path}: read in chunks of {cs} differs')
        chk('C01', c.get_objects_content([key, key])[key] == b, f'{path}: bulk read differs')
        m = c.get_object_meta(key)
        chk('C01', m['size'] == len(b), f'{path}: reported size {m["size"]} != {len(b)}')
        with c.get_objects_stream_and_meta([key]) as it:
            for k, s, mm in it:
                chk('C01', k == key and s.read() == b and mm['size'] == len(b), f'{path}: bulk stream/meta differs')
        c.close()
        c2 = Container(os.path.join(root, 'c'))
        chk('C01', c2.get_object_content(key) == b, f'{path}: differs after reopening')
        c2.close()
    finally:
        shutil.rmtree(root, ignore_errors=True)
    return {'sig': [path, len(b), cfg], 'nontrivial': len(b) > 0, 'path': path, 'len': len(b), 'cfg': cfg}


# ----------------------------------------------------------------------------------------------- C07
FORMS = ['loose', 'packed', 'packed_z', 'packed_z_loosened', 'lazy_loose']


def streamprog(prop, seed, index, tier):
    rng = random.Random(f'sp/{seed}/{index}')
    drain = index % 20 == 2          # many tiny reads, then one large read, on an object deflating to > 512 KiB
    pool = content_pool(rng, big=(index % 10 == 0 or drain))
    form = 'packed_z' if drain else FORMS[index % len(FORMS)]
    b = pool[-3] if drain else rng.choice(pool) if index % 10 else pool[-3 + rng.randrange(3)]
    root = scratch_root()
    prog = []
    try:
        c = Container(os.path.join(root, 'c'))
        c.init_container(loose_prefix_len=rng.choice([0, 2]), compression_algorithm='zlib+%d' % rng.choice([1, 9]))
        before, after = rng.choice(pool[:6]) + b'B', rng.choice(pool[:6]) + b'A'
        if form == 'loose' or form == 'lazy_loose':
            key = c.add_object(b)
        else:
            z = form != 'packed'
            keys = c.add_objects_to_pack([before, b, after], compress=z)
            key = keys[1]
            if form == 'packed_z_loosened':
                c.loosen_object(key)
        ref = io.BytesIO(b)
        L = len(b)
        ctx = c.get_lazy_loose_stream(key) if form == 'lazy_loose' else c.get_object_stream(key)
        with ctx as s:
            nsteps = rng.randrange(4, 30)
            forced = ([1] * rng.choice([702, 702, 300, 1500]) + [2_000_000]) if drain else []
            for _ in range(nsteps + len(forced)):
                r = rng.random()
                if forced or r < .45:
                    n = forced.pop(0) if forced else rng.choice([0, 1, 2, 7, 100, 4096, 65536, 600_000, -1, None, rng.randrange(0, L + 2)])
                    prog.append(['read', n])
                    got = s.read() if n is None else s.read(n)
                    exp = ref.read() if n is None else ref.read(n)
                    chk('C07', got == exp, f'{form}: read({n}) at {ref.tell() - len(exp)} differs from the in-memory file',
                        got_len=len(got), exp_len=len(exp), prog=prog)
                elif r < .85:
                    wh = rng.choice([0, 0, 1, 2])
                    cur = ref.tell()
                    base = {0: 0, 1: cur, 2: L}[wh]
                    if rng.random() < .8:
                        newpos = rng.choice([0, L, rng.randrange(0, L + 1), max(0, cur - 1), min(L, cur + 1)])
                    else:
                        newpos = rng.choice([-1, L + 1, L + 1000, -L - 5])
                    t = newpos - base
                    prog.append(['seek', t, wh])
                    if 0 <= newpos <= L:
                        try:
                            ret = s.seek(t, wh)
                        except Exception as e:
                            chk('C07', False, f'{form}: in-range seek({t},{wh}) to {newpos} of {L} raised {type(e).__name__}: {e}',
                                prog=prog)
                        ref.seek(newpos)
                        chk('C07', ret == newpos, f'{form}: seek({t},{wh}) returned {ret}, in-memory file returns {newpos}', prog=prog)
                        chk('C07', s.tell() == newpos, f'{form}: tell() after seek({t},{wh}) is {s.tell()} not {newpos}', prog=prog)
                    else:
                        try:
                            ret = s.seek(t, wh)
                        except Exception:
                            chk('C07', s.tell() == cur, f'{form}: rejected seek({t},{wh}) moved the position', prog=prog)
                        else:
                            chk('C07', isinstance(ret, int) and ret >= 0 and s.tell() == ret,
                                f'{form}: out-of-range seek({t},{wh}) returned {ret} but tell() is {s.tell()}', prog=prog)
                            ref.seek(ret)
                else:
                    prog.append(['tell'])
                    chk('C07', s.tell() == ref.tell(), f'{form}: tell() {s.tell()} != {ref.tell()}', prog=prog)
            # finally: nothing from outside the object
            rest = s.read()
            chk('C07', rest == ref.read(), f'{form}: final read() returned bytes that are not the rest of the object', prog=prog)
        c.close()
    finally:
        shutil.rmtree(root, ignore_errors=True)
    return {'sig': [form, len(b), str(prog)[-400:], len(prog)], 'nontrivial': len(prog) >= 4 and len(b) > 0, 'form': form, 'len': len(b),
            'prog_len': len(prog), 'prog': prog[-12:]}


# ----------------------------------------------------------------------------------------------- C16 helpers
def merge(prop, seed, index, tier):
    """Exhaustive: all pairs of strictly increasing sequences over a universe of 6 elements (64 x 64 pairs)."""
    univ = list(range(6))
    subsets = [[x for x in univ if m >> x & 1] for m in range(1 << len(univ))]
    n = 0
    for a in subsets:
        for b in subsets:
            n += 1
            got = list(U.detect_where_sorted(iter(a), iter(b)))
            exp = [(x, U.Location.BOTH if (x in a and x in b) else U.Location.LEFTONLY if x in a else U.Location.RIGHTONLY)
                   for x in sorted(set(a) | set(b))]
            chk('C16', got == exp, f'detect_where_sorted({a},{b}) = {got}')
            chk('C16', list(U.merge_sorted(iter(a), iter(b))) == sorted(set(a) | set(b)), f'merge_sorted({a},{b}) wrong')
    rej = 0
    for ln in (2, 3):
        for seq in itertools.product(range(3), repeat=ln):
            if all(x < y for x, y in zip(seq, seq[1:])):
                continue
            for other in ([], [1], [0, 1, 2]):
                for left in (True, False):
                    args = (iter(seq), iter(other)) if left else (iter(other), iter(seq))
                    try:
                        list(U.detect_where_sorted(*args))
                    except ValueError:
                        rej += 1
                    else:
                        chk('C16', False, f'detect_where_sorted accepted the unsorted/non-unique input {seq} (left={left}, other={other})')
    for ln in range(0, 14):
        for size in (1, 2, 3, 5, 13, 14):
            chunks = list(U.chunk_iterator(iter(range(ln)), size))
            chk('C16', [x for ch in chunks for x in ch] == list(range(ln)), f'chunk_iterator({ln},{size}) loses or reorders elements')
            chk('C16', all(len(ch) == size for ch in chunks[:-1]) and all(0 < len(ch) <= size for ch in chunks),
                f'chunk_iterator({ln},{size}) chunk sizes wrong: {chunks}')
    return {'sig': ['merge-exhaustive'], 'nontrivial': True, 'pairs': n, 'unsorted_rejected': rej, 'exhaustive_universe': 6}


# ----------------------------------------------------------------------------------------------- safe_flush_to_disk
def fdsync(prop, seed, index, tier):
    """safe_flush_to_disk: the file is fsynced after being flushed, the parent directory is fsynced, and the directory
    descriptor is closed again (no growth over many calls), for use_fullsync in {False, True}."""
    import fcntl
    use_full = bool(index % 2)
    root = scratch_root()
    log = []
    real_fsync, real_fcntl = os.fsync, fcntl.fcntl
    try:
        p = Path(root) / 'f'
        fh = open(p, 'wb')
        fh.write(b'x' * 100)

        def rec_fsync(fd):
            log.append(('fsync', os.readlink(f'/proc/self/fd/{fd}'), os.fstat(fd).st_size))
            return real_fsync(fd)

        def rec_fcntl(fd, cmd, *a):
            log.append(('fcntl', cmd, os.readlink(f'/proc/self/fd/{fd}')))
            return real_fcntl(fd, cmd, *a)
        os.fsync, fcntl.fcntl = rec_fsync, rec_fcntl
        n0 = len(os.listdir('/proc/self/fd'))
        for i in range(40):
            fh.write(b'y')
            del log[:]
            U.safe_flush_to_disk(fh, p, use_fullsync=use_full)
            synced = [e for e in log if e[0] == 'fsync' and e[1] == str(p)]
            has_full = hasattr(fcntl, 'F_FULLFSYNC')
            if not has_full:
                chk(prop, synced and synced[-1][2] == 101 + i,
                    f'safe_flush_to_disk(use_fullsync={use_full}) did not fsync the file after flushing it', log=log)
                chk(prop, any(e[0] == 'fsync' and e[1] == root for e in log),
                    f'safe_flush_to_disk(use_fullsync={use_full}) did not fsync the parent directory', log=log)
                chk(prop, not any(e[0] == 'fcntl' for e in log),
                    'safe_flush_to_disk issued an fcntl although this platform defines no F_FULLFSYNC', log=log)
        n1 = len(os.listdir('/proc/self/fd'))
        chk('C18' if prop == 'C18' else prop, n1 == n0, f'descriptors grew from {n0} to {n1} over 40 safe_flush_to_disk calls')
        fh.close()
    finally:
        os.fsync, fcntl.fcntl = real_fsync, real_fcntl
        shutil.rmtree(root, ignore_errors=True)
    return {'sig': ['fdsync', use_full], 'nontrivial': True, 'use_fullsync': use_full, 'calls': 40}


def cleanbulk(prop, seed, index, tier):
    """C16 (maintenance bulk operations): pack_all_loose / clean_storage over n loose objects, n on both sides of the
    (lowered) batch and strategy thresholds, must treat every key like the single-key case: afterwards every loose object
    is packed, resp. no packed object is left loose; content unchanged."""
    rng = random.Random(f'cleanbulk/{seed}/{index}')
    old = (Container._IN_SQL_MAX_LENGTH, Container._MAX_CHUNK_ITERATE_LENGTH)
    Container._IN_SQL_MAX_LENGTH, Container._MAX_CHUNK_ITERATE_LENGTH = 3, 7
    root = scratch_root()
    n_done = 0
    try:
        sizes = [1, 2, 3, 4, 5, 6, 7, 8, 9, 13] if tier == 'quick' else list(range(1, 20))
        n = sizes[index % len(sizes)]
        extra = rng.randrange(0, 5)
        c = Container(os.path.join(root, 'c'))
        c.init_container(clear=True, pack_size_target=rng.choice([1, 300, 10 ** 9]), loose_prefix_len=rng.choice([0, 2]))
        model = {}
        for i in range(n):
            b = b'packed-later %d %d' % (index, i) * rng.randrange(1, 20)
            model[c.add_object(b)] = b
        c.pack_all_loose(compress=rng.random() < .5)
        packed = set(model)
        left = {k for k in packed if os.path.exists(c._get_loose_path_from_hashkey(k))}
        chk('C16', left == packed, 'pack_all_loose without per-pack cleaning removed loose files')
        chk('C16', c.count_objects().packed == n, f'pack_all_loose packed {c.count_objects().packed} of {n} loose objects')
        for i in range(extra):
            b = b'still loose %d %d' % (index, i)
            model[c.add_object(b)] = b
        c.clean_storage()
        still = {k for k in packed if os.path.exists(c._get_loose_path_from_hashkey(k))}
        chk('C16', not still, f'clean_storage left {len(still)} of {n} packed objects loose (bulk != each key)', n=n, extra=extra)
        for k, b in model.items():
            chk('C16', c.get_object_content(k) == b, f'{k} does not read back after pack+clean')
        cnt = c.count_objects()
        chk('C16', cnt.packed == n and cnt.loose == extra, f'counts after clean: {cnt} (expected packed={n}, loose={extra})')
        c.close()
        n_done = n
    finally:
        Container._IN_SQL_MAX_LENGTH, Container._MAX_CHUNK_ITERATE_LENGTH = old
        shutil.rmtree(root, ignore_errors=True)
    return {'sig': ['cleanbulk', n_done, extra], 'nontrivial': n_done >= 2, 'n': n_done, 'extra': extra}
