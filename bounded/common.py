"""Shared helpers of the run-time-contract (bounded) checks.  Runs under /venv/bin/python against /repo's working tree.

Everything here executes the REAL code of /repo/disk_objectstore; the contracts are sidecar postconditions over a ghost
model (a plain dict key -> bytes) evaluated after every public call.  These checks are *bounded stand-ins*: they are
never counted as proved.
"""
import hashlib
import io
import json
import os
import random
import shutil
import sqlite3
import sys
import tempfile
import zlib

REPO = os.environ.get('VERIF_REPO', '/repo')
if REPO not in sys.path:
    sys.path.insert(0, REPO)

HERE = os.path.dirname(os.path.abspath(__file__))
VERIF = os.path.dirname(HERE)
OUT = os.environ.get('VERIF_OUT_DIR') or os.path.join(VERIF, 'out')


def scratch_root():
    base = '/dev/shm' if os.path.isdir('/dev/shm') and os.access('/dev/shm', os.W_OK) else tempfile.gettempdir()
    return tempfile.mkdtemp(prefix='dosverif_', dir=base)


class Violation(Exception):
    def __init__(self, prop, msg, data=None):
        super().__init__(f'{prop}: {msg}')
        self.prop, self.msg, self.data = prop, msg, data or {}


def digest(hash_type, b):
    return hashlib.new(hash_type, b).hexdigest()


def content_pool(rng, big=False):
    """Contents chosen to straddle the internal chunk sizes (64 KiB copy chunk, 512 KiB inflate chunk) and to be
    compressible / incompressible / empty."""
    r = random.Random(rng.random())
    pool = [
        b'', b'a', b'hello world', b'a' * 3000, bytes(r.getrandbits(8) for _ in range(300)),
        b'0123456789' * 500, bytes(r.getrandbits(8) for _ in range(65536 - 1)), b'xy' * 32768 + b'z',
        bytes(r.getrandbits(8) for _ in range(70000)), b'\x00' * 131072,
    ]
    if big:
        blocks = [r.randbytes(700) for _ in range(1500)]
        pool.append(b''.join(b + b for b in blocks))          # 2.1 MB, deflates to > 512 KiB
        pool.append(r.randbytes(600_000))
        pool.append(b'q' * 1_200_000)
    return pool


def fd_census(folder):
    """Descriptors of this process that point inside `folder`."""
    folder = os.path.realpath(folder)
    out = []
    for n in os.listdir('/proc/self/fd'):
        try:
            t = os.readlink(f'/proc/self/fd/{n}')
        except OSError:
            continue
        if t == folder or t.startswith(folder + os.sep):
            out.append((int(n), t))
    return out


def raw_index(folder):
    """The pack index read with sqlite3 only (no library code)."""
    p = os.path.join(folder, 'packs.idx')
    if not os.path.exists(p):
        return []
    con = sqlite3.connect(f'file:{p}?mode=ro', uri=True)
    try:
        return con.execute('SELECT hashkey, compressed, size, offset, length, pack_id FROM db_object ORDER BY pack_id, offset').fetchall()
    finally:
        con.close()


def raw_loose(folder, prefix_len):
    base = os.path.join(folder, 'loose')
    out = {}
    if prefix_len == 0:
        for n in os.listdir(base):
            out[n] = os.path.join(base, n)
        return out
    for d in os.listdir(base):
        dp = os.path.join(base, d)
        if os.path.isdir(dp):
            for n in os.listdir(dp):
                out[d + n] = os.path.join(dp, n)
    return out


def raw_read(folder, row):
    hk, comp, size, off, length, pack_id = row
    with open(os.path.join(folder, 'packs', str(pack_id)), 'rb') as fh:
        fh.seek(off)
        raw = fh.read(length)
    return raw


def write_replay(prop, payload):
    d = os.path.join(OUT, 'replay')
    os.makedirs(d, exist_ok=True)
    n = 0
    while os.path.exists(os.path.join(d, f'{prop}_{n}.json')):
        n += 1
    p = os.path.join(d, f'{prop}_{n}.json')
    with open(p, 'w') as fh:
        json.dump(payload, fh, indent=1, default=lambda o: repr(o))
    return p


def b2j(b):
    """bytes -> compact JSON-able description that can be turned back into the bytes."""
    if len(b) <= 64:
        return {'hex': b.hex()}
    return {'zhex': zlib.compress(b, 9).hex(), 'len': len(b), 'sha1': hashlib.sha1(b).hexdigest()}


def j2b(j):
    if 'hex' in j:
        return bytes.fromhex(j['hex'])
    return zlib.decompress(bytes.fromhex(j['zhex']))
