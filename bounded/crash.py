"""Bounded enumeration of crash points (C05), power-loss states (C06) and single I/O faults (C17).

One operation is run on a prepared container with every I/O-relevant call of the library intercepted from outside
(module-level `open` of container.py / utils.py, os.rename/replace/link/unlink/remove/fsync/mkdir, Session.execute/commit):
  crash : before each intercepted call the container folder is copied -- exactly the bytes a killed process leaves behind
          (user-space buffers are lost because they have not reached the file) -- and the copy is checked with a new handle.
  C06   : same, and each regular file of the copy is cut back to what it held at its last fsync (nothing if never synced).
  fault : the k-th intercepted call raises OSError / OperationalError; the store is checked, then the operation is re-run.
Bound: every boundary of the operations listed in OPS on one prepared state per case.  Never counted as proved.
"""
import errno
import io
import os
import random
import shutil
import stat

from common import Violation, digest, scratch_root

import disk_objectstore.container as CM
import disk_objectstore.utils as UM
from disk_objectstore import CompressMode, Container
from sqlalchemy.exc import OperationalError
from sqlalchemy.orm import Session

OS_FUNCS = ['rename', 'replace', 'link', 'unlink', 'remove', 'fsync', 'mkdir']


class FileProxy:
    def __init__(self, tap, fh, path):
        object.__setattr__(self, '_tap', tap)
        object.__setattr__(self, '_fh', fh)
        object.__setattr__(self, '_path', path)

    def __getattr__(self, n):
        return getattr(self._fh, n)

    def __setattr__(self, n, v):
        setattr(self._fh, n, v)

    def write(self, b):
        self._tap.boundary('write')
        return self._fh.write(b)

    def flush(self):
        self._tap.boundary('flush')
        return self._fh.flush()

    def truncate(self, *a):
        self._tap.boundary('truncate')
        return self._fh.truncate(*a)

    def close(self):
        if not self._fh.closed and self._fh.writable():
            self._tap.boundary('close')
        return self._fh.close()

    def __enter__(self):
        self._fh.__enter__()
        return self

    def __exit__(self, *a):
        self.close()
        return False

    def __iter__(self):
        return iter(self._fh)


class Tap:
    def __init__(self, folder, handler):
        self.folder, self.handler = os.path.realpath(folder), handler
        self.n = 0
        self.active = False
        self.saved = {}
        self.log = []
        self.synced = {}

    read_opens = False

    def boundary(self, name):
        if not self.active:
            return
        self.active = False
        try:
            k = self.n
            self.n += 1
            self.log.append(name)
            self.handler(k, name)
        finally:
            self.active = True

    def inside(self, p):
        try:
            return os.path.realpath(os.fspath(p)).startswith(self.folder)
        except TypeError:
            return False

    def install(self):
        tap = self
        for fn in OS_FUNCS:
            real = getattr(os, fn)
            self.saved[fn] = real

            def w(*a, _real=real, _fn=fn, **kw):
                if tap.active and _fn != 'fsync' and not tap.inside(a[0]):
                    return _real(*a, **kw)
                tap.boundary(_fn)
                freed = None
                if tap.active and _fn in ('unlink', 'remove', 'rename', 'replace'):
                    tgt = a[0] if _fn in ('unlink', 'remove') else a[1]
                    try:
                        st = os.stat(tgt)
                        if st.st_nlink <= 1:
                            freed = st.st_ino
                    except OSError:
                        pass
                r = _real(*a, **kw)
                if freed is not None:
                    tap.synced.pop(freed, None)
                if tap.active and _fn == 'fsync':
                    try:
                        st = os.fstat(a[0])
                        if stat.S_ISREG(st.st_mode):
                            with io.open(f'/proc/self/fd/{a[0]}', 'rb') as fh:
                                tap.synced[st.st_ino] = fh.read()
                    except OSError:
                        pass
                return r
            setattr(os, fn, w)

        def my_open(path, mode='r', *a, **kw):
            if tap.active and isinstance(path, (str, os.PathLike)) and tap.inside(path) and any(c in mode for c in 'wxa+'):
                tap.boundary('open')
                return FileProxy(tap, io.open(path, mode, *a, **kw), path)
            if tap.active and tap.read_opens and isinstance(path, (str, os.PathLike)) and tap.inside(path):
                tap.boundary('open_read')          # fault family only: opening a file for reading is an I/O call too
            return io.open(path, mode, *a, **kw)
        CM.open = my_open
        UM.open = my_open
        for m in ('execute', 'commit'):
            real = getattr(Session, m)
            self.saved['S' + m] = real

            def sw(s, *a, _real=real, _m=m, **kw):
                tap.boundary('sql_' + _m)
                return _real(s, *a, **kw)
            setattr(Session, m, sw)
        for root, _, files in os.walk(self.folder):
            for f in files:
                p = os.path.join(root, f)
                with io.open(p, 'rb') as fh:
                    self.synced[os.stat(p).st_ino] = fh.read()
        self.active = True

    def uninstall(self):
        self.active = False
        for fn in OS_FUNCS:
            setattr(os, fn, self.saved[fn])
        for m in ('execute', 'commit'):
            setattr(Session, m, self.saved['S' + m])
        for mod in (CM, UM):
            if 'open' in mod.__dict__:
                del mod.open


# ----------------------------------------------------------------------------------------------- scenarios
SMALL = [b'', b'a', b'hello world', b'a' * 3000, b'0123456789' * 300, bytes(range(256)) * 9, b'zz' * 5000, b'new-1', b'new-2' * 700]
OPS = ['add_object', 'add_streamed_object', 'add_to_pack', 'add_to_pack_z_noholes', 'pack_all_loose', 'pack_all_loose_per_pack_z',
       'clean_storage', 'delete', 'repack', 'pack_then_clean', 'pack_all_loose_nofsync', 'add_to_pack_nofsync', 'import_same_hash']


def prepare(folder, rng):
    c = Container(folder)
    c.init_container(pack_size_target=rng.choice([1, 4000, 4 * 1024 ** 3]), loose_prefix_len=rng.choice([0, 2]),
                     hash_type=rng.choice(['sha1', 'sha256']))
    model = {}
    for b in SMALL[:3]:
        model[c.add_objects_to_pack([b], compress=rng.random() < .5)[0]] = b
    for b in SMALL[2:6]:
        model[c.add_object(b)] = b
    if rng.random() < .5:
        c.pack_all_loose()
        model[c.add_object(SMALL[6])] = SMALL[6]
    c.close()
    return model


def do_op(c, op, model, rng):
    """Returns (targets deleted, contents being added)."""
    ht = c.hash_type
    new = [SMALL[7], SMALL[8], SMALL[3]]
    if op == 'add_object':
        c.add_object(new[0])
    elif op == 'add_streamed_object':
        c.add_streamed_object(io.BytesIO(new[1]))
    elif op == 'add_to_pack':
        c.add_objects_to_pack(new)
    elif op == 'add_to_pack_z_noholes':
        c.add_objects_to_pack(new, compress=True, no_holes=True, no_holes_read_twice=rng.random() < .5)
    elif op == 'pack_all_loose':
        c.pack_all_loose()
    elif op == 'pack_all_loose_per_pack_z':
        c.pack_all_loose(compress=CompressMode.YES, clean_loose_per_pack=True)
    elif op == 'pack_all_loose_nofsync':
        # do_fsync=False gives up the power-loss guarantee (C06) but not the crash guarantee (C05 / C17)
        c.pack_all_loose(do_fsync=False, clean_loose_per_pack=rng.random() < .5)
    elif op == 'add_to_pack_nofsync':
        c.add_objects_to_pack(new, do_fsync=False, compress=rng.random() < .5)
    elif op == 'import_same_hash':
        src = Container(os.path.join(os.path.dirname(c.get_folder()), 'import_source'))
        if not src.is_initialised:
            src.init_container(hash_type=ht, pack_size_target=4000)
            src.add_objects_to_pack(new, compress=True)
        c.import_objects(src.list_all_objects(), src)
        src.close()
    elif op == 'clean_storage':
        c.clean_storage()
    elif op == 'delete':
        c.delete_objects(sorted(model)[:3])
    elif op == 'repack':
        c.repack(compress_mode=rng.choice(list(CompressMode)))
    elif op == 'pack_then_clean':
        c.pack_all_loose()
        c.clean_storage()


def plan(op, model, ht):
    new = [SMALL[7], SMALL[8], SMALL[3]]
    adding = {}
    if op == 'add_object':
        adding = {digest(ht, new[0]): new[0]}
    elif op == 'add_streamed_object':
        adding = {digest(ht, new[1]): new[1]}
    elif op.startswith('add_to_pack') or op == 'import_same_hash':
        adding = {digest(ht, b): b for b in new}
    targets = set(sorted(model)[:3]) if op == 'delete' else set()
    return targets, adding


def check_state(prop, folder, model, targets, adding, op, where, ht):
    """A new handle on `folder`: stored objects complete, no partial object under a key, never wrong bytes."""
    c = Container(folder)
    try:
        loud_ok = op == 'repack'
        for k, b in model.items():
            if k in targets:
                continue
            try:
                got = c.get_object_content(k)
            except Exception as e:
                if loud_ok:
                    continue
                raise Violation(prop, f'{op} {where}: previously stored object {k[:10]} is lost/unreadable ({type(e).__name__})',
                                {'where': where})
            if got != b:
                raise Violation(prop, f'{op} {where}: previously stored object {k[:10]} reads back with other bytes', {'where': where})
        try:
            listed = list(c.list_all_objects())
        except Exception:
            listed = []
        for k in set(listed) | set(adding):
            try:
                if not c.has_object(k):
                    continue
                got = c.get_object_content(k)
            except Exception as e:
                if loud_ok or k in targets:
                    continue
                raise Violation(prop, f'{op} {where}: visible key {k[:10]} cannot be read ({type(e).__name__}: {str(e)[:80]})',
                                {'where': where})
            if digest(ht, got) != k:
                raise Violation(prop, f'{op} {where}: key {k[:10]} reads back bytes with another digest (partial/wrong object)',
                                {'where': where})
    finally:
        c.close()


def run(prop, family, seed, index, tier):
    rng = random.Random(f'{family}/{seed}/{index}')
    # the power-loss property (C06) is stated for the default fsync settings only
    ops = [o for o in OPS if not (prop == 'C06' and o.endswith('_nofsync'))]
    op = ops[index % len(ops)]
    root = scratch_root()
    try:
        base = os.path.join(root, 'base')
        model = prepare(base, rng)
        ht = Container(base).hash_type
        targets, adding = plan(op, model, ht)
        oprng_seed = rng.random()
        if family == 'crash':
            work = os.path.join(root, 'work')
            shutil.copytree(base, work)
            snaps = []

            def handler(k, name):
                d = os.path.join(root, f'snap{k}')
                shutil.copytree(work, d)
                if prop == 'C06':
                    for r, _, files in os.walk(work):
                        for f in files:
                            if f.startswith('packs.idx') or f == 'config.json' or f.endswith('.lock'):
                                continue
                            p = os.path.join(r, f)
                            data = tap.synced.get(os.stat(p).st_ino, b'')
                            with io.open(os.path.join(d, os.path.relpath(p, work)), 'wb') as fh:
                                fh.write(data)
                snaps.append((k, name, d))
            tap = Tap(work, handler)
            c = Container(work)
            tap.install()
            try:
                do_op(c, op, model, random.Random(oprng_seed))
                handler(tap.n, 'return of the operation')        # the state the completed operation leaves behind
            finally:
                tap.uninstall()
            c.close()
            for k, name, d in snaps:
                check_state(prop, d, model, targets, adding, op, f'crash before I/O call #{k} ({name}) of {len(snaps)}', ht)
                shutil.rmtree(d, ignore_errors=True)
            return {'sig': [family, prop, op, index], 'nontrivial': len(snaps) >= 3, 'op': op, 'boundaries': len(snaps),
                    'calls': tap.log[:40]}
        # ---- single faults
        count = {'n': 0}
        work = os.path.join(root, 'work')
        shutil.copytree(base, work)
        tap = Tap(work, lambda k, name: None)
        tap.read_opens = True
        c = Container(work)
        tap.install()
        try:
            do_op(c, op, model, random.Random(oprng_seed))
        finally:
            tap.uninstall()
        c.close()
        total, names = tap.n, list(tap.log)
        shutil.rmtree(work)
        ks = list(range(total)) if total <= 60 else sorted(rng.sample(range(total), 60))
        # opening a file may also fail with EACCES (PermissionError, which some callers handle): second pass for opens
        plan_ = [(k, 'EIO') for k in ks] + [(k, 'EACCES') for k in ks if names[k] in ('open', 'open_read')][:12]
        outcomes = {'raised': 0, 'completed': 0}
        for k, errkind in plan_:
            shutil.copytree(base, work)

            def handler(kk, name, _k=k, _e=errkind):
                if kk == _k:
                    if name.startswith('sql_'):
                        raise OperationalError('injected', {}, OSError(errno.EIO, 'injected I/O error'))
                    if _e == 'EACCES':
                        raise PermissionError(errno.EACCES, 'injected permission error')
                    raise OSError(errno.EIO, 'injected I/O error')
            tap = Tap(work, handler)
            tap.read_opens = True
            c = Container(work)
            tap.install()
            try:
                do_op(c, op, model, random.Random(oprng_seed))
                outcomes['completed'] += 1
            except Exception:
                outcomes['raised'] += 1
            finally:
                tap.uninstall()
            try:
                c.close()
            except Exception:
                pass
            where = f'I/O error ({errkind}) injected at call #{k} ({names[k]}) of {total}'
            check_state(prop, work, model, targets, adding, op, where, ht)
            if op != 'repack':
                pk = os.path.join(work, 'packs')
                for f in os.listdir(pk):
                    if f.endswith('.lock'):
                        os.remove(os.path.join(pk, f))
                c2 = Container(work)
                try:
                    try:
                        do_op(c2, op, model, random.Random(oprng_seed))
                    except Exception as e:
                        raise Violation(prop, f'{op}: after {where} the operation cannot be re-run by a new handle '
                                        f'({type(e).__name__}: {str(e)[:100]})', {'where': where})
                    after = {kk: v for kk, v in model.items() if kk not in targets}
                    after.update(adding)
                    for kk, v in after.items():
                        try:
                            got = c2.get_object_content(kk)
                        except Exception as e:
                            raise Violation(prop, f'{op}: after {where} and a re-run, {kk[:10]} is unreadable ({type(e).__name__})',
                                            {'where': where})
                        if got != v:
                            raise Violation(prop, f'{op}: after {where} and a re-run, {kk[:10]} reads other bytes', {'where': where})
                finally:
                    c2.close()
            shutil.rmtree(work)
        return {'sig': [family, prop, op, index], 'nontrivial': total >= 3, 'op': op, 'faults_injected': len(plan_),
                'io_calls': total, 'outcomes': outcomes}
    finally:
        shutil.rmtree(root, ignore_errors=True)
