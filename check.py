#!/usr/bin/env python3
"""Decide one property on /repo's current working tree.

    python3 check.py <PROPERTY> [--tier quick|thorough]          (env VERIF_SEED, VERIF_TIER, VERIF_REPO)

Two parts per property (see DESIGN.md section 0):
  * deductive: every contract unit (contracts/*.py) tagged with the property is verified by pyvc -- the REAL function
    body is re-read from the working tree, executed symbolically against the callee contracts and the environment
    model, and every obligation is discharged by z3.  Only this part is ever counted as "proved".
  * bounded: run-time contracts on the real code over enumerated / seeded cases (bounded/*.py), the stand-in for the
    functions the deductive engine does not reach.  Labelled bounded everywhere.
Exit 0: held on everything explored.  Exit 1: a line `VIOLATION property=<id> replay=<path>` per violation not listed
in known_findings.txt.  Exit 3: the checker itself failed (never reported as a violation).
"""
import argparse
import concurrent.futures as cf
import importlib
import json
import os
import subprocess
import sys
import time

HERE = os.path.dirname(os.path.abspath(__file__))
sys.path.insert(0, HERE)
REPO = os.environ.get('VERIF_REPO', '/repo')
OUT = os.environ.get('VERIF_OUT_DIR') or os.path.join(HERE, 'out')              # scratch runs on mutated copies
EVID = os.environ.get('VERIF_EVIDENCE_DIR') or os.path.join(HERE, 'evidence')   # redirect both, never the defaults
PYVT = 'python3-vt'
PAR = int(os.environ.get('VERIF_PAR', '14'))
VENV_PY = '/venv/bin/python'

LEVEL = {  # evidence level per property (must agree with MANIFEST.json)
    'C07': 'proof',
    'C01': 'other', 'C02': 'other', 'C03': 'other', 'C05': 'other', 'C06': 'other', 'C09': 'other', 'C10': 'other',
    'C11': 'other', 'C12': 'other', 'C13': 'other', 'C14': 'other', 'C17': 'other', 'C18': 'other',
    'C08': 'other', 'C16': 'other',
    'C04': 'exploration', 'C15': 'exploration',
}
CONTRACT_MODULES = ['streams', 'sync', 'writers', 'cwrite', 'helpers', 'cpack', 'cdirect', 'crepack', 'clist', 'cread', 'cclose', 'cclean', 'cdelete', 'cvalidate', 'csorted']
STANDING_ASSUMPTIONS = [
    'pyvc encodes a subset of Python: unbounded mathematical integers, bytes/str as z3 sequences, attribute dictionaries, '
    'left-to-right evaluation, no threads, no signals; anything outside the subset makes the unit undecided (never a pass)',
    'environment models (pyvc/envmodel.py, fsmodel.py, sqlmodel.py) are trusted: CPython buffered file objects over a two-level '
    '(kernel / user-space buffer) file model with a per-inode synced watermark (E-FILE-*), atomic directory operations on a map '
    'of path identifiers (E-OS), os.fsync/fcntl (E-SYNC), hashlib as an uninterpreted collision-free function (E-HASH), zlib '
    '(de)compress objects as an uninterpreted inverse pair with non-empty streams (E-ZLIB), SQLite through SQLAlchemy as a map '
    'hashkey -> row with interpreted statements, snapshot-pinning sessions and atomic durable commits (E-SQL, E-SQL-Q), '
    'str(int) and f"{int}.lock" as injective functions with disjoint ranges (E-INTSTR), fresh uuid4 names (E-UUID)',
    'integer literals >= 65536 of the repository (chunk sizes) are generalised to arbitrary positive integers',
    'progress callbacks are absent (units are verified with callback=None); disk_objectstore/database.py is environment',
    'z3 5.1 is trusted; `unknown`/timeouts are never counted as discharged; an obligation of baseline_obligations.json that is '
    'no longer discharged is reported after one re-try with a doubled budget',
]


def env():
    e = dict(os.environ)
    e['PYVC_REPO'] = REPO
    e['VERIF_REPO'] = REPO
    e['PYTHONPATH'] = HERE
    e.setdefault('PYVC_TIMEOUT_MS', '10000' if os.environ.get('VERIF_TIER', 'quick') == 'quick' else '30000')
    e.pop('PYTHONHASHSEED', None)
    return e


def units_for(prop):
    out = []
    e = env()
    code = ('import importlib,json,sys\nout=[]\n'
            f'for m in {CONTRACT_MODULES!r}:\n'
            '    try:\n        mod=importlib.import_module("contracts."+m)\n    except ModuleNotFoundError:\n        continue\n'
            '    for u in mod.UNITS:\n'
            '        out.append({"module":m,"name":u.name,"fn":u.fn,"props":list(u.props),"trusted":bool(u.trusted),'
            '"deferred":bool(getattr(u,"deferred",False)),"note":getattr(u,"note",""),"tier":getattr(u,"tier","quick"),'
            '"parallel":bool(getattr(u,"parallel",False)),"bounded":bool(getattr(u,"bounded",False)),"timeout_ms":getattr(u,"timeout_ms",None),'
            '"quick_props":list(getattr(u,"quick_props",None) or u.props)})\n'
            'print(json.dumps(out))')
    r = subprocess.run([PYVT, '-c', code], capture_output=True, text=True, env=e, cwd=HERE)
    if r.returncode != 0:
        raise RuntimeError('cannot load contracts: ' + r.stderr[-2000:])
    seen, out = set(), []
    for u in json.loads(r.stdout):
        if u['name'] in DEFERRED_UNITS:
            u['deferred'], u['note'] = True, DEFERRED_UNITS[u['name']]
        if prop in u['props'] and (u['module'], u['name']) not in seen:
            # a module may re-export the summaries of another one: keep the first occurrence
            if any(x['name'] == u['name'] and x['trusted'] == u['trusted'] for x in out):
                continue
            seen.add((u['module'], u['name']))
            out.append(u)
    return out


_SRC_HASH = {}


def _contract_closure(mod):
    """Contract modules a unit of `mod` can depend on: its DEPENDS list and everything it imports from the package,
    transitively (plus the shared vocabulary)."""
    import re
    seen, todo = set(), [mod, 'common', 'cmodel', '__init__']
    while todo:
        m = todo.pop()
        if m in seen:
            continue
        p = os.path.join(HERE, 'contracts', m + '.py')
        if not os.path.exists(p):
            continue
        seen.add(m)
        src = open(p).read()
        for mm in re.findall(r'^\s*from \.(\w+) import', src, re.M):
            todo.append(mm)
        for line in re.findall(r'^\s*from \. import (.+)$', src, re.M):
            for part in line.split(','):
                todo.append(part.strip().split(' ')[0])
        for lst in re.findall(r'^DEPENDS\s*=\s*\[(.*?)\]', src, re.M | re.S):
            todo += re.findall(r"'(\w+)'", lst)
    return sorted(seen)


def source_hash(mod=None):
    """Digest of everything a unit's verdict depends on: the repository sources it parses, the engine and the contract
    modules its own module can reach."""
    if mod not in _SRC_HASH:
        import hashlib
        h = hashlib.sha256()
        files = []
        for d in (os.path.join(REPO, 'disk_objectstore'), os.path.join(HERE, 'pyvc')):
            files += [os.path.join(d, f) for f in sorted(os.listdir(d)) if f.endswith('.py')]
        cdir = os.path.join(HERE, 'contracts')
        names = _contract_closure(mod) if mod else sorted(f[:-3] for f in os.listdir(cdir) if f.endswith('.py'))
        files += [os.path.join(cdir, n + '.py') for n in names]
        for f in files:
            h.update(os.path.basename(f).encode() + b'\0' + open(f, 'rb').read() + b'\0')
        _SRC_HASH[mod] = h.hexdigest()
    return _SRC_HASH[mod]


# Solver budget multipliers for the two units whose hardest obligation (the case-split proof that the batch of new index rows
# designates what was appended) needs seconds per path: a doubled budget keeps their verdict stable on a busy machine.
UNIT_BUDGET_SCALE = {'container:Container.add_streamed_objects_to_pack': 2, 'container:Container.pack_all_loose@defaults': 2,
                     'container:Container.pack_all_loose': 2, 'container:Container.pack_all_loose@frame': 2}


# Units that are not run (their clauses are counted nowhere; listed in evidence under functions_assumed with this note).
DEFERRED_UNITS = {
    'container:Container.pack_all_loose@frame': 'NOT RUN and not counted: the full-frame variant did not finish within 35 minutes at the '
                                                'doubled solver budget on 23 Sep 2026 and was not re-validated after the last change of the row '
                                                'predicate; the frame facts it would add are checked by the bounded histories only',
}


def run_unit(u, budget, scale=1):
    scale = scale * UNIT_BUDGET_SCALE.get(u['name'], 1)
    """Verify one unit in a worker process. The verdict is a function of (repository sources, engine, contracts, unit,
    solver budget); verdicts are memoised under out/cache by the digest of exactly those inputs, so that the properties
    sharing a unit do not re-prove it within one session. VERIF_NO_CACHE=1 disables the memo."""
    import hashlib
    # a unit with its own solver budget does not depend on the tier's default budget: its every-change verdict is reused
    # by the thorough tier
    tmo_key = '10000' if (u.get('timeout_ms') and u.get('tier') != 'thorough') else env().get('PYVC_TIMEOUT_MS')
    key = hashlib.sha256(f"{source_hash(u['module'])}|{u['module']}|{u['name']}|{scale}|{tmo_key}".encode()).hexdigest()[:32]
    cpath = os.path.join(OUT, 'cache', key + '.json')
    if not os.environ.get('VERIF_NO_CACHE') and os.path.exists(cpath):
        try:
            d = json.load(open(cpath))
            d['from_memo'] = True
            return d
        except Exception:
            pass
    d = _run_unit(u, budget, scale)
    if d.get('status') in ('ok', 'undecided') and 'time budget' not in d.get('reason', ''):
        os.makedirs(os.path.dirname(cpath), exist_ok=True)
        tmp = cpath + f'.{os.getpid()}.tmp'
        json.dump(d, open(tmp, 'w'))
        os.replace(tmp, cpath)
    return d


def _run_unit(u, budget, scale=1):
    t0 = time.time()
    e = env()
    e['PYVC_TIMEOUT_SCALE'] = str(scale)
    cmd = [PYVT, '-m', 'pyvc.worker', u['module'], u['name']]
    if u.get('parallel'):
        cmd += ['--par', str(PAR)]
    try:
        r = subprocess.run(cmd, capture_output=True, text=True, env=e, cwd=HERE, timeout=budget)
    except subprocess.TimeoutExpired:
        return {'unit': u['name'], 'status': 'undecided', 'reason': f'time budget of {budget}s exceeded', 'obligations': [],
                'stats': {}, 'wall': time.time() - t0}
    for line in r.stdout.splitlines():
        if line.startswith('PYVC-RESULT '):
            return json.loads(line[len('PYVC-RESULT '):])
    return {'unit': u['name'], 'status': 'error', 'reason': 'worker crashed: ' + (r.stderr or r.stdout)[-1500:],
            'obligations': [], 'stats': {}, 'wall': time.time() - t0}


def load_baseline():
    p = os.path.join(HERE, 'baseline_obligations.json')
    if os.path.exists(p):
        return json.load(open(p))
    return {}


def run_units(todo, budget):
    """Small units in a thread pool, the path-parallel ones one after the other (each uses PAR processes)."""
    small = [u for u in todo if not u.get('parallel')]
    big = [u for u in todo if u.get('parallel')]
    results = {}
    with cf.ThreadPoolExecutor(max_workers=max(2, PAR // 2)) as ex:
        for u, r in zip(small, ex.map(lambda u: run_unit(u, budget), small)):
            results[u['name']] = r
    for u in big:
        results[u['name']] = run_unit(u, budget)
    return [results[u['name']] for u in todo]


def known_findings():
    out = []
    p = os.path.join(HERE, 'known_findings.txt')
    if os.path.exists(p):
        for line in open(p):
            if line.startswith('known:'):
                f = dict(x.split('=', 1) for x in line[6:].split('|')[0].split() if '=' in x)
                out.append({'property': f.get('property'), 'match': line.split('|', 2)[1].strip() if '|' in line else '',
                            'text': line.strip()})
    return out


def write_baseline(tier):
    """Developer command (never run by a registered check): record which obligations are discharged on the reference tree.
    python3 check.py --write-baseline [--tier thorough]   -- merges into baseline_obligations.json"""
    os.environ['VERIF_TIER'] = tier
    allu, seen = [], set()
    for p_ in sorted(LEVEL):
        for u in units_for(p_):
            if u['name'] not in seen and not u['trusted'] and not u['deferred'] and (tier == 'thorough' or u['tier'] != 'thorough'):
                seen.add(u['name'])
                allu.append(u)
    res = run_units(allu, 900 if tier == 'quick' else 9000)
    base = load_baseline()
    for u, r in zip(allu, res):
        if r['status'] in ('ok',):
            base[u['name']] = sorted(o['name'] for o in r['obligations'] if o['status'] == 'discharged')
        print(u['name'], r['status'], sum(o['status'] == 'discharged' for o in r['obligations']), '/', len(r['obligations']), r.get('reason', '')[:100])
    json.dump(base, open(os.path.join(HERE, 'baseline_obligations.json'), 'w'), indent=0, sort_keys=True)
    return 0


def main():
    if '--write-baseline' in sys.argv:
        return write_baseline('thorough' if 'thorough' in sys.argv else 'quick')
    ap = argparse.ArgumentParser()
    ap.add_argument('prop')
    ap.add_argument('--tier', default=os.environ.get('VERIF_TIER', 'quick'))
    a = ap.parse_args()
    prop, tier = a.prop, a.tier
    os.environ['VERIF_TIER'] = tier
    seed = int(os.environ.get('VERIF_SEED', '0') or 0)
    t0 = time.time()
    os.makedirs(os.path.join(OUT, 'replay'), exist_ok=True)
    os.makedirs(EVID, exist_ok=True)
    evp = os.path.join(EVID, f'{prop}.json')
    checker_errors, violations = [], []

    # ------------------------------------------------------------------ deductive part
    units = units_for(prop)
    def in_tier(u):
        # expensive units are proved in the every-change tier only under the properties of their `quick_props`
        return tier == 'thorough' or (u['tier'] != 'thorough' and prop in u['quick_props'])
    todo = [u for u in units if not u['trusted'] and not u['deferred'] and in_tier(u)]
    skipped_tier = [u['name'] for u in units if not in_tier(u) and not u['trusted'] and not u['deferred']]
    budget = 900 if tier == 'quick' else 6000
    baseline = load_baseline()
    with cf.ThreadPoolExecutor(max_workers=2) as ex:
        bounded_future = ex.submit(run_bounded, prop, tier, seed)
        results = run_units(todo, budget)
        # an obligation that is discharged on the reference tree (baseline_obligations.json) and is not discharged now is
        # re-tried once with a doubled solver budget before it is reported (absorbs load-induced timeouts)
        for i, (u, r) in enumerate(zip(todo, results)):
            base = set(baseline.get(u['name'], []))
            if r['status'] == 'ok' and any(o['status'] == 'unknown' and o['name'] in base for o in r['obligations']):
                r2 = run_unit(u, budget * 2, scale=2)
                if r2['status'] == 'ok':
                    r2['retried'] = True
                    results[i] = r2
        bnd = bounded_future.result()
    proved_units, undecided_units, ded_samples, bounded_units = [], [], [], []
    n_ob = n_dis = 0
    solver_time = 0.0
    vacuous = []
    for u, r in zip(todo, results):
        solver_time += r.get('stats', {}).get('solver_time', 0)
        if r['status'] == 'error':
            checker_errors.append(f"{r['unit']}: {r['reason']}")
            continue
        obs = r['obligations']
        base = set(baseline.get(u['name'], []))
        failed = [o for o in obs if o['status'] == 'failed']
        regressed = [o for o in obs if o['status'] == 'unknown' and o['name'] in base]
        unknown = [o for o in obs if o['status'] == 'unknown' and o['name'] not in base]
        for o in failed:
            violations.append({'kind': 'obligation', 'unit': r['unit'], 'obligation': o['name'], 'detail': o['failed'],
                               'msg': f"proof obligation {o['name']} fails on the current source (counter-model found)"})
        for o in regressed:
            violations.append({'kind': 'obligation', 'unit': r['unit'], 'obligation': o['name'], 'detail': o['unknown'],
                               'msg': f"proof obligation {o['name']}, discharged on the reference tree, is no longer discharged on the "
                                      f"current source (solver: {o['unknown'][0]['reason'] if o['unknown'] else 'unknown'}; no model "
                                      "produced, re-tried with a doubled budget)"})
        if u.get('bounded'):
            bounded_units.append({'unit': r['unit'], 'note': u['note'], 'cases': r['stats'].get('paths'),
                                  'ok': not failed and r['status'] == 'ok'})
            continue
        if r['status'] == 'undecided' or unknown or not obs:
            undecided_units.append({'unit': r['unit'], 'reason': r.get('reason') or
                                    'solver returned unknown for: ' + ', '.join(o['name'] for o in unknown),
                                    'obligations': len(obs), 'discharged': sum(o['status'] == 'discharged' for o in obs)})
            continue
        if failed or regressed:
            continue
        proved_units.append({'unit': r['unit'], 'obligations': len(obs), 'paths': r['stats'].get('paths'),
                             'solver_s': round(r['stats'].get('solver_time', 0), 2), 'wall_s': r['wall']})
        n_ob += len(obs)
        n_dis += sum(o['status'] == 'discharged' for o in obs)
        vacuous += [o['name'] for o in obs if not o['witnessed']]
        for o in obs[:2]:
            if o.get('sample') and len(ded_samples) < 6:
                ded_samples.append({'obligation': o['name'], 'paths': o['paths'], 'clause': o['sample']['clause'][:300]})
    if todo and n_ob == 0 and not violations and not undecided_units:
        checker_errors.append('zero obligations generated (vacuity guard)')

    # ------------------------------------------------------------------ bounded part
    if bnd.get('fatal'):
        checker_errors.append('bounded harness: ' + bnd['fatal'])
    for e_ in bnd.get('errors', []):
        checker_errors.append(f"bounded case {e_['family']}#{e_['index']}: {e_['error'][-800:]}")
    for v in bnd.get('violations', []):
        if v['prop'] == prop:
            violations.append({'kind': 'bounded', 'msg': v['msg'], 'replay': v['replay'], 'family': v['family']})

    # ------------------------------------------------------------------ report
    kf = [k for k in known_findings() if k['property'] == prop]
    reported = 0
    concrete = [v for v in violations if v['kind'] == 'bounded']
    lines = []
    for v in violations:
        k = next((k for k in kf if k['match'] and k['match'] in v['msg']), None)
        if k:
            lines.append(f"KNOWN-FINDING: property={prop} {k['text'][6:].strip()}")
            continue
        reported += 1
        if v['kind'] == 'bounded':
            lines.append(f"VIOLATION property={prop} replay={v['replay']}")
            lines.append(f"  {v['msg']}")
        else:
            rp = os.path.join(OUT, 'replay', f"{prop}_obligation_{reported}.json")
            payload = {'property': prop, 'failed_obligation': v['obligation'], 'unit': v['unit'], 'verifier_output': v['detail'],
                       'note': 'counter-model of the verification condition (symbolic state of the environment model)'}
            if concrete:
                payload['concrete_failing_input'] = concrete[0]['replay']
                payload['bounded_case'] = json.load(open(concrete[0]['replay'])).get('bounded_case')
                json.dump(payload, open(rp, 'w'), indent=1, default=str)
                lines.append(f"VIOLATION property={prop} replay={rp}")
            else:
                json.dump(payload, open(rp, 'w'), indent=1, default=str)
                lines.append(f"VIOLATION property={prop} replay={rp} no-failing-input-found")
            lines.append(f"  {v['msg']}")
    for k in kf:
        if not any(l.startswith('KNOWN-FINDING') and k['text'][6:].strip() in l for l in lines):
            # a listed finding that no longer shows up is only reported as such, never suppressed/added
            lines.append(f"note: listed finding not observed in this run: {k['text'][6:].strip()}")

    level = LEVEL[prop]
    cov = {
        'evaluations': bnd.get('evaluations', 0) + n_ob,
        'distinct_nontrivial': bnd.get('distinct_nontrivial', 0) + (n_dis if units else 0),
        'rule': 'bounded part: seeded cases generated by bounded/run.py (families %s); two cases are distinct when their '
                'configuration+operation list (or the case signature) differ, non-trivial when a history has >=3 operation '
                'kinds and >=2 live keys (histories) or a non-empty object / non-empty program (single-call cases). '
                'deductive part: each discharged obligation is one distinct case.' % bnd.get('families'),
        'samples': (ded_samples[:3] + bnd.get('samples', [])[:3]) or [{'note': 'no case ran'}],
        'bounded': {'labelled': 'bounded stand-in, never counted as proved', 'cases': bnd.get('evaluations', 0),
                    'distinct': bnd.get('distinct', 0), 'families': bnd.get('families'), 'seed': seed,
                    'wall_s': round(bnd.get('wall', 0), 1)},
        'deductive': {'functions_proved': proved_units, 'functions_undecided_not_counted': undecided_units,
                      'functions_assumed': [u['name'] + (': ' + u['note'] if u['note'] else '') for u in units
                                            if u['trusted'] or u['deferred']],
                      'back_end': 'z3 %s via pyvc (sidecar contracts in /verif/contracts, bodies re-read from %s)' % (z3_version(), REPO),
                      'functions_checked_on_samples_only_bounded': bounded_units,
                      'units_run_in_the_thorough_tier_only': skipped_tier,
                      'solver_s': round(solver_time, 2), 'obligations_without_witness': vacuous},
    }
    if units:
        cov.update({'obligations': n_ob, 'discharged': n_dis,
                    'checker_cmd': f'python3-vt -m pyvc.worker <module> <unit>   (driven by check.py {prop})',
                    'trusted_base': STANDING_ASSUMPTIONS})
    if level == 'other':
        cov['explanation'] = ('mixed: the functions listed under deductive.functions_proved are proved (all obligations discharged '
                              'by z3 from the real bodies); the composition of the public operations over histories / crash points '
                              '/ fault positions is checked by bounded run-time contracts only (coverage.bounded)')
    if level == 'proof' and (n_ob == 0 or n_ob != n_dis):
        level = 'other'
        cov['explanation'] = 'proof obligations were not all discharged in this run; see deductive.functions_undecided_not_counted'
    ev = {'property_id': prop, 'tier': tier, 'seed': seed, 'level': level, 'coverage': cov,
          'assumptions': STANDING_ASSUMPTIONS + [u['name'] + ' contract assumed' for u in units if u['trusted'] or u['deferred']]
          + ['bounded part explores finitely many seeded cases; it proves nothing beyond them'],
          'wall_s': round(time.time() - t0, 1), 'violations': reported}
    json.dump(ev, open(evp, 'w'), indent=1, default=str)
    for l in lines:
        print(l)
    print(f'{prop} tier={tier}: deductive {n_dis}/{n_ob} obligations in {len(proved_units)} functions '
          f'({len(undecided_units)} undecided, not counted); bounded {bnd.get("evaluations", 0)} cases; '
          f'{reported} violation(s); {time.time() - t0:.0f}s')
    if reported:
        return 1
    if checker_errors:
        for c in checker_errors[:5]:
            print('CHECKER-ERROR', c, file=sys.stderr)
        return 3
    return 0


def z3_version():
    try:
        r = subprocess.run([PYVT, '-c', 'import z3;print(z3.get_version_string())'], capture_output=True, text=True)
        return r.stdout.strip()
    except Exception:
        return '?'


def run_bounded(prop, tier, seed):
    out = os.path.join(OUT, f'bounded_{prop}_{os.getpid()}.json')
    try:
        r = subprocess.run([VENV_PY, os.path.join(HERE, 'bounded', 'run.py'), prop, '--tier', tier, '--seed', str(seed),
                            '--out', out], capture_output=True, text=True, env=env(), cwd=HERE,
                           timeout=1500 if tier == 'quick' else 4 * 3600)
        if r.returncode != 0 or not os.path.exists(out):
            return {'fatal': (r.stderr or r.stdout)[-2000:]}
        d = json.load(open(out))
        os.unlink(out)
        return d
    except subprocess.TimeoutExpired:
        return {'fatal': 'time budget exceeded'}


if __name__ == '__main__':
    sys.exit(main())
