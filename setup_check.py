"""MANIFEST.setup_cmd: nothing to build; verify offline that the tools the checks need are present."""
import subprocess, sys
ok = True
for cmd in (['python3-vt', '-c', 'import z3; print("z3", z3.get_version_string())'],
            ['/venv/bin/python', '-c', 'import sys; sys.path.insert(0, "/repo"); import disk_objectstore, sqlalchemy; print("disk_objectstore", disk_objectstore.__version__)']):
    r = subprocess.run(cmd, capture_output=True, text=True)
    print((r.stdout or r.stderr).strip())
    ok &= r.returncode == 0
sys.exit(0 if ok else 1)
