"""Shared model of a Container handle and of the on-disk container (world W) for the container-level contracts.

Spec vocabulary (DESIGN.md section 3), as executable SMT builders:
  loose_pid(C, k)        path id of the loose file of key k
  pack_pid(C, i)         path id of pack file i
  range_of(W, T, C, k)   the stored byte range of the indexed object k
  row_ok(W, T, C, k)     the index row of k designates a range inside an existing pack whose (inflated) content hashes to k
"""
from .common import *
from .sync import mk_world
from .writers import loose_pid as _loose_pid, mk_container_folders
from pyvc import fsmodel as FS
from pyvc import sqlmodel as SQL

MODULES = ['exceptions', 'dataclasses', 'utils', 'container']

# tiny accessors of Container / utils that are always executed from their real bodies
ACCESSORS = (
    'container:Container.loose_prefix_len', 'container:Container.pack_size_target', 'container:Container.hash_type',
    'container:Container.compression_algorithm', 'container:Container._get_repository_config',
    'container:Container._get_loose_folder', 'container:Container._get_pack_folder',
    'container:Container._get_sandbox_folder', 'container:Container._get_duplicates_folder',
    'container:Container._get_pack_index_path', 'container:Container._get_config_file',
    'container:Container._get_loose_path_from_hashkey', 'container:Container._get_pack_path_from_pack_id',
    'container:Container._get_compressobj_instance', 'container:Container._get_stream_decompresser',
    'container:Container._new_object_writer', 'container:Container.get_folder',
    'container:Container._get_operation_session', 'container:Container._get_container_session',
    'container:Container._close_operation_session', 'container:Container.get_lazy_loose_stream',
    'utils:get_compressobj_instance', 'utils:get_stream_decompresser', 'utils:_get_compression_algorithm_info',
    'utils:get_hash_cls', 'utils:ObjectWriter.__init__', 'utils:ObjectWriter.hash_type', 'utils:ObjectWriter.get_hashkey',
    'utils:nullcontext', 'utils:LazyLooseStream.__init__',
)


class CUnit(Unit):
    modules = MODULES
    inline = ACCESSORS


def mk_container(vc, I, w=None, session='none', hash_types=('sha256', 'sha1'), levels=('zlib+1',)):
    """A Container handle with its configuration cached (config.json is immutable after init_container)."""
    w = w or vc.world or mk_world(vc)
    d = mk_container_folders(vc)
    n = SInt.fresh('loose_prefix_len')
    T = SInt.fresh('pack_size_target')
    vc.assume(b_and(n >= 0, T > 0))
    h = hash_types[vc.choose(len(hash_types), label='hash_type')] if len(hash_types) > 1 else hash_types[0]
    # the level only reaches zlib.compressobj(level=...), whose model does not depend on it
    algo = levels[vc.choose(len(levels), label='zlib_level')] if len(levels) > 1 else levels[0]
    cfg = MDict([('container_version', 1), ('loose_prefix_len', n), ('pack_size_target', T), ('hash_type', h),
                 ('container_id', SStr.fresh('container_id')), ('compression_algorithm', algo)])
    c = new_obj(I, 'container:Container', _folder=d.folder, _operation_session=None, _container_session=None,
                _current_pack_id=None, _config=cfg)
    c.f['$dirs'] = d
    c.f['$n'], c.f['$T'], c.f['$hash'] = n, T, h
    # the index file exists (the container is initialised)
    idx = FS.PathVal(d.folder.base, ('packs.idx',))
    vc.assume(w.inode_at(idx.pid()) != 0)
    if session == 'open':
        c.f['_operation_session'] = SQL.SessionObj(I, SQL.db_of(I), idx)
    return c


def loose_pid(c, k):
    return _loose_pid(c.f['$dirs'].loose, c.f['$n'], k)


def pack_path(c, i):
    from pyvc.engine import cur
    d = c.f['$dirs']
    cur().ikey(i, 'pack')          # pack-id term: instantiation point of the hypotheses quantified over pack ids
    return FS.PathVal(d.packs.base, d.packs.parts + (SStr(EM.intstr_term(i)),))


def pack_pid(c, i):
    return pack_path(c, i).pid()


def lock_pid(c, i):
    from pyvc.engine import cur
    d = c.f['$dirs']
    cur().ikey(i, 'pack')
    return FS.PathVal(d.packs.base, d.packs.parts + (SStr(EM.lockname_term(i)),)).pid()


def pack_data(w, c, i):
    return w.data(w.inode_at(pack_pid(c, i)))


def range_of(w, T, c, k, data=None):
    """Stored bytes of indexed object k (data: override of the pack content, e.g. the logical content of an open handle)."""
    d = pack_data(w, c, T.col('pack_id', k)) if data is None else data
    off, ln = T.col('offset', k), T.col('length', k)
    return d.slice(off, off + ln)


def row_ok(w, T, c, k, data=None, synced=False):
    """RowOK(W, k): range inside the pack file, (inflated) range hashes to k, sizes consistent."""
    pid = pack_pid(c, T.col('pack_id', k))
    ino = w.inode_at(pid)
    d = w.data(ino) if data is None else data
    limit = w.synced(ino) if synced else d.length()
    off, ln, sz, comp = T.col('offset', k), T.col('length', k), T.col('size', k), T.col('compressed', k)
    stored = d.slice(off, off + ln)
    content = EM.dec(comp, stored)
    return b_and(ino != 0, off >= 0, ln >= 0, off + ln <= limit,
                 implies(comp, b_and(EM.zvalid(stored), ln > 0)),      # (E-ZLIB: a complete zlib stream is never empty)
                 EM.H(c.f['$hash'], content) == SStr.of(k), content.length() == sz,
                 implies(b_not(comp), ln == sz), T.col('pack_id', k) >= 0)


# ----------------------------------------------------------------------------- _is_valid_pack_id
import re as _re


def valid_pack_id_spec(s, allow):
    """Pack ids are canonical decimal numerals of non-negative integers ('-1' additionally when the repack pack is allowed)."""
    return bool(_re.fullmatch(r'0|[1-9][0-9]*', s)) or (allow and s == '-1')


class IsValidPackId(Unit):
    """Summary of Container._is_valid_pack_id for arguments of the form str(n) (the only form the container builds):
    valid iff n >= 0, or n == -1 when the repack pack is allowed.  Rests on E-INTSTR (str(n) is the canonical decimal
    numeral of n); the real body is checked against `valid_pack_id_spec` on a set of literal strings by the unit
    `_is_valid_pack_id@samples` (a bounded stand-in: the engine has no model of character-wise iteration over a symbolic
    string)."""
    fn = 'container:Container._is_valid_pack_id'
    props = ('C13',)
    trusted = True
    modules = MODULES
    note = 'assumed for str(n) arguments (E-INTSTR); body checked on literal strings only (bounded)'

    def bind_actual(self, I, f, args, kwargs):
        args = list(args)
        if args and not isinstance(args[0], (str, SStr, EM.IntStr, EM.StrCat)):
            args = args[1:]          # bound classmethod: drop cls
        a = NS(pack_id=args[0], allow_repack_pack=kwargs.get('allow_repack_pack', args[1] if len(args) > 1 else False))
        return a

    def havoc(self, vc, I, a):
        p = a.pack_id
        allow = a.allow_repack_pack
        if isinstance(p, str):
            return valid_pack_id_spec(p, bool(allow))
        if isinstance(p, EM.IntStr):
            EM.used('E-INTSTR')
            return b_or(p.n >= 0, b_and(SBool.of(allow), p.n == -1))
        from pyvc.values import Unsupported
        raise Unsupported('_is_valid_pack_id of a symbolic string that is not str(int)')


SAMPLE_PACK_IDS = ['', '0', '00', '01', '1', '7', '9', '10', '42', '007', '-1', '-2', '-0', '--1', '1a', 'a', 'a1', '+1', '1.5',
                   ' 1', '1 ', '1_0', '0x1', '1e3', '12345678901234567890', '-', '.', '0.lock', '1.lock', '/']


class IsValidPackIdSamples(Unit):
    fn = 'container:Container._is_valid_pack_id'
    mode = 'samples'
    props = ('C13',)
    verify_only = True
    modules = MODULES
    bounded = True
    note = f'bounded stand-in: real body executed on {len(SAMPLE_PACK_IDS)} literal strings x allow_repack_pack'

    def make(self, vc, I):
        s = SAMPLE_PACK_IDS[vc.choose(len(SAMPLE_PACK_IDS), label='sample')]
        allow = vc.choose(2, label='allow') == 1
        return NS(cls=I.prog.classes['container:Container'], pack_id=s, allow_repack_pack=allow)

    def post(self, vc, a, o, ret):
        yield 'agrees_with_canonical_decimal_spec', SBool.of(bool(conc(ret)) == valid_pack_id_spec(a.pack_id, a.allow_repack_pack)
                                                              if conc(ret) is not None else False)


CM_UNITS = [IsValidPackId(), IsValidPackIdSamples()]
