"""Contracts for the sorted-merge helpers of utils.py, proved on the real bodies (C16):

  detect_where_sorted(left, right): for two strictly increasing finite sequences (any lengths, incl. empty), the generator
  yields every element of either sequence exactly once, in index order of its sequence (the k-th left/both item is left[k],
  the k-th right/both item is right[k]), classified correctly: LEFTONLY items occur nowhere in `right`, RIGHTONLY items
  nowhere in `left`, BOTH items are the equal pair (the LEFT element is handed out); no ValueError for sorted input.
  merge_sorted / yield_first_element are thin loops over it.

This is what the assumed summaries `DetectWhereSortedSummary` / `MergeSortedSummary` of helpers.py state; with this unit they
are discharged against the body (for integer-ordered elements: the function only compares its elements).

Unlike every other unit, the clauses here quantify over INDICES of the abstract sequences and are handed to z3 as
quantified formulas over integers and uninterpreted functions (E-matching); nothing else in the engine does that.
"""
import z3

from .common import *

SEQ_L = z3.Function('left_at', z3.IntSort(), z3.IntSort())
SEQ_R = z3.Function('right_at', z3.IntSort(), z3.IntSort())


def atL(i):
    return SInt(SEQ_L(SInt.of(i).t))


def atR(i):
    return SInt(SEQ_R(SInt.of(i).t))


def strictly_increasing(f, n):
    i, j = z3.Ints('i j')
    return SBool(z3.ForAll([i, j], z3.Implies(z3.And(0 <= i, i < j, j < n.t), f(i) < f(j)), patterns=[z3.MultiPattern(f(i), f(j))]))


def nowhere_in(f, n, x):
    y = z3.Int('y')
    return SBool(z3.ForAll([y], z3.Implies(z3.And(0 <= y, y < n.t), f(y) != SInt.of(x).t), patterns=[f(y)]))


def G(vc, n):
    return vc.ghost[n]


def dws_inv(vc, L):
    nL, nR = G(vc, '$nL'), G(vc, '$nR')
    li, rj = L.left_iterator.pos, L.right_iterator.pos
    LE, RE, now_left = SBool.of(L.left_exhausted), SBool.of(L.right_exhausted), SBool.of(L.now_left)
    nl, nr = G(vc, '$left_emitted'), G(vc, '$right_emitted')
    yield 'cursors_in_range', b_and(li >= 0, li <= nL, rj >= 0, rj <= nR)
    if L.has('last_left'):
        yield 'pending_left_is_the_last_element_taken', implies(b_not(LE), b_and(li >= 1, SInt.of(L.last_left) == atL(li - 1)))
    else:
        yield 'left_was_empty', b_and(LE, nL == 0)
    if L.has('last_right'):
        yield 'pending_right_is_the_last_element_taken', implies(b_not(RE), b_and(rj >= 1, SInt.of(L.last_right) == atR(rj - 1)))
    else:
        yield 'right_was_empty', b_and(RE, nR == 0)
    yield 'exhausted_means_all_taken', b_and(implies(LE, li == nL), implies(RE, rj == nR))
    pl, pr = ite(LE, nL, li - 1), ite(RE, nR, rj - 1)
    yield 'every_element_before_the_pending_ones_was_handed_out', b_and(nl == pl, nr == pr)
    if L.has('last_left'):
        yield 'right_elements_handed_out_are_below_the_pending_left', implies(b_and(b_not(LE), pr > 0), atR(pr - 1) < SInt.of(L.last_left))
    if L.has('last_right'):
        yield 'left_elements_handed_out_are_below_the_pending_right', implies(b_and(b_not(RE), pl > 0), atL(pl - 1) < SInt.of(L.last_right))
    yield 'the_current_side_is_not_exhausted', implies(b_not(b_and(LE, RE)), b_and(implies(now_left, b_not(LE)), implies(b_not(now_left), b_not(RE))))


def dws_havoc(vc, L):
    L.left_iterator.pos = SInt.fresh('li')
    L.right_iterator.pos = SInt.fresh('rj')
    vc.ghost['$left_emitted'] = SInt.fresh('nl')
    vc.ghost['$right_emitted'] = SInt.fresh('nr')


class DetectWhereSorted(Unit):
    fn = 'utils:detect_where_sorted'
    mode = 'body'
    props = ('C16',)
    allowed_exc = ()
    timeout_ms = 20000
    verify_only = True
    loops = {0: Loop(0, dws_inv, havoc=dws_havoc)}

    def make(self, vc, I):
        nL, nR = SInt.fresh('nL'), SInt.fresh('nR')
        vc.assume(b_and(nL >= 0, nR >= 0))
        vc.ghost['$nL'], vc.ghost['$nR'] = nL, nR
        return NS(left_iterator=EM.AbsSeq(nL, atL, 'left'), right_iterator=EM.AbsSeq(nR, atR, 'right'), left_key=None, nL=nL, nR=nR)

    def pre(self, vc, a):
        yield 'left_sorted_unique', strictly_increasing(SEQ_L, a.nL)
        yield 'right_sorted_unique', strictly_increasing(SEQ_R, a.nR)

    def snapshot(self, vc, a):
        vc.ghost['$left_emitted'] = SInt.of(0)
        vc.ghost['$right_emitted'] = SInt.of(0)
        vc.ghost['$loc'] = None
        return NS(nL=a.nL, nR=a.nR)

    def on_yield(self, vc, a, o, item):
        x, where = item
        nl, nr = G(vc, '$left_emitted'), G(vc, '$right_emitted')
        name = where.name
        x = SInt.of(x)
        if name in ('LEFTONLY', 'BOTH'):
            yield 'left_items_come_in_index_order_none_skipped', b_and(nl < o.nL, x == atL(nl))
        if name in ('RIGHTONLY', 'BOTH'):
            yield 'right_items_come_in_index_order_none_skipped', b_and(nr < o.nR, (x if name == 'RIGHTONLY' else atL(nl)) == atR(nr))
        if name == 'LEFTONLY':
            yield 'left_only_item_occurs_nowhere_on_the_right', nowhere_in(SEQ_R, o.nR, x)
            vc.ghost['$left_emitted'] = nl + 1
        elif name == 'RIGHTONLY':
            yield 'right_only_item_occurs_nowhere_on_the_left', nowhere_in(SEQ_L, o.nL, x)
            vc.ghost['$right_emitted'] = nr + 1
        else:
            vc.ghost['$left_emitted'], vc.ghost['$right_emitted'] = nl + 1, nr + 1

    def post(self, vc, a, o, ret):
        yield 'every_left_element_handed_out_exactly_once', G(vc, '$left_emitted') == o.nL
        yield 'every_right_element_handed_out_exactly_once', G(vc, '$right_emitted') == o.nR


# ----------------------------------------------------------------------------- yield_first_element
ROW_FIRST = z3.Function('row_first', z3.IntSort(), z3.IntSort())
ROW_SECOND = z3.Function('row_second', z3.IntSort(), z3.IntSort())


def yfe_inv(vc, L):
    yield 'handed_out_one_item_per_row_so_far', G(vc, '$count') == SInt.of(L.i)


def yfe_havoc(vc, L):
    vc.ghost['$count'] = SInt.fresh('count')


class YieldFirstElement(Unit):
    """utils.yield_first_element on its body: the k-th item is the first component of the k-th row, one item per row."""
    fn = 'utils:yield_first_element'
    mode = 'body'
    props = ('C16',)
    allowed_exc = ()
    verify_only = True
    loops = {0: Loop(0, yfe_inv, havoc=yfe_havoc)}

    def make(self, vc, I):
        n = SInt.fresh('nrows')
        vc.assume(n >= 0)
        rows = EM.AbsSeq(n, lambda i: (SInt(ROW_FIRST(SInt.of(i).t)), SInt(ROW_SECOND(SInt.of(i).t))), 'rows')
        return NS(iterator=rows, n=n)

    def snapshot(self, vc, a):
        vc.ghost['$count'] = SInt.of(0)
        return NS(n=a.n)

    def on_yield(self, vc, a, o, item):
        k = G(vc, '$count')
        yield 'item_is_the_first_component_of_the_next_row', b_and(k < o.n, SInt.of(item) == SInt(ROW_FIRST(k.t)))
        vc.ghost['$count'] = k + 1

    def post(self, vc, a, o, ret):
        yield 'one_item_per_row', G(vc, '$count') == o.n


# ----------------------------------------------------------------------------- merge_sorted
W_ITEM = z3.Function('dws_item', z3.IntSort(), z3.IntSort())


class DwsAsSequence(Unit):
    """Callee summary used only by the merge_sorted unit below: the items detect_where_sorted hands out, as an abstract
    finite sequence of (item, location) pairs (what the sequence contains is the subject of DetectWhereSorted above)."""
    fn = 'utils:detect_where_sorted'
    props = ('C16',)
    trusted = True
    note = 'the generator seen as the finite sequence of its items; its content is proved by utils:detect_where_sorted@body'

    def havoc(self, vc, I, a):
        m = SInt.fresh('nitems')
        vc.assume(m >= 0)
        vc.ghost['$m'] = m
        loc = I.prog.classes['utils:Location'].attrs['BOTH']
        return EM.AbsSeq(m, lambda i: (SInt(W_ITEM(SInt.of(i).t)), loc), 'classified')


class MergeSorted(Unit):
    """utils.merge_sorted on its body: hands out exactly the items of detect_where_sorted, in the same order, one each."""
    fn = 'utils:merge_sorted'
    mode = 'body'
    props = ('C16',)
    allowed_exc = ()
    verify_only = True
    loops = {0: Loop(0, yfe_inv, havoc=yfe_havoc)}

    def make(self, vc, I):
        return NS(iterator1=EM.AbsSeq(SInt.fresh('n1'), atL, 'left'), iterator2=EM.AbsSeq(SInt.fresh('n2'), atR, 'right'))

    def snapshot(self, vc, a):
        vc.ghost['$count'] = SInt.of(0)
        return NS()

    def on_yield(self, vc, a, o, item):
        k = G(vc, '$count')
        yield 'item_is_the_next_item_of_detect_where_sorted', b_and(k < G(vc, '$m'), SInt.of(item) == SInt(W_ITEM(k.t)))
        vc.ghost['$count'] = k + 1

    def post(self, vc, a, o, ret):
        yield 'one_item_per_classified_element', G(vc, '$count') == G(vc, '$m')


UNITS = [DetectWhereSorted(), YieldFirstElement(), DwsAsSequence(), MergeSorted()]
