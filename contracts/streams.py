"""Contracts for the stream classes of disk_objectstore/utils.py (C07, reader half of C01).

Abstract state of every stream: (content, pos) of an in-memory binary file (io.BytesIO semantics).
"""
from .common import *


# ----------------------------------------------------------------------------- PackedObjectReader
def por_view(r):
    fh = r.f['_fhandle']
    off, ln = SInt.of(r.f['_offset']), SInt.of(r.f['_length'])
    return NS(fh=fh, off=off, len=ln, content=fh.content().slice(off, off + ln), pos=SInt.of(r.f['_pos']),
              kpos=fh.kpos)


def por_rep(r, inside=True):
    v = por_view(r)
    cl = [('offset_nonneg', v.off >= 0), ('length_nonneg', v.len >= 0),
          ('pos_in_range', b_and(v.pos >= 0, v.pos <= v.len)),
          ('handle_at_pos', v.kpos == v.off + v.pos)]
    if inside:
        cl.append(('object_inside_file', v.off + v.len <= v.fh.content().length()))
    return cl


def mk_por(vc, I, inside=True):
    w = vc.world = EM.World(vc)
    ino = w.new_inode(vc, SBytes.fresh('packfile'))
    fh = EM.FileObj(w, ino, 'rb')
    fh.kpos = SInt.fresh('kpos')
    r = new_obj(I, 'utils:PackedObjectReader', _fhandle=fh, _offset=SInt.fresh('offset'), _length=SInt.fresh('length'),
                _pos=SInt.fresh('pos'))
    return r


class PorBase(Unit):
    props = ('C07', 'C01')
    inline = ('utils:PackedObjectReader._update_pos', 'utils:PackedObjectReader.tell')
    inside = True

    def pre(self, vc, a):
        return por_rep(a.self, self.inside)

    def snapshot(self, vc, a):
        return por_view(a.self)

    def frame_havoc(self, vc, a):
        r = a.self
        r.f['_fhandle'].kpos = SInt.fresh('kpos')
        r.f['_pos'] = SInt.fresh('pos')


class PorSeek(PorBase):
    fn = 'utils:PackedObjectReader.seek'
    allowed_exc = ('ValueError',)

    def make(self, vc, I):
        return NS(self=mk_por(vc, I), target=SInt.fresh('target'), whence=SInt.fresh('whence'))

    @staticmethod
    def newpos(a, o):
        w, t = SInt.of(a.whence), SInt.of(a.target)
        return ite(w == 0, t, ite(w == 1, o.pos + t, o.len + t))

    @staticmethod
    def in_range(a, o):
        w = SInt.of(a.whence)
        p = PorSeek.newpos(a, o)
        return b_and(b_or(w == 0, w == 1, w == 2), p >= 0, p <= o.len)

    def post(self, vc, a, o, ret):
        n = por_view(a.self)
        yield 'ret_is_new_position', implies(self.in_range(a, o), b_and(SInt.of(ret) == self.newpos(a, o),
                                                                         n.pos == self.newpos(a, o)))
        yield 'ret_is_position_even_if_clamped', SInt.of(ret) == n.pos
        yield 'normal_return_only_in_range_or_clamped', b_and(n.pos >= 0, n.pos <= o.len)
        for nm, f in por_rep(a.self, self.inside):
            yield 'rep_kept:' + nm, f
        yield 'content_unchanged', n.content == o.content

    def exc(self, vc, a, o, e):
        n = por_view(a.self)
        yield 'raises_only_when_out_of_range', b_not(self.in_range(a, o))
        yield 'reject_leaves_position', b_and(n.pos == o.pos, n.kpos == o.kpos)

    def havoc(self, vc, I, a):
        self.frame_havoc(vc, a)
        return SInt.fresh('seekret')

    def exc_cases(self, vc, I, a, o):
        yield 'ValueError', b_not(self.in_range(a, o)), None


class PorRead(PorBase):
    fn = 'utils:PackedObjectReader.read'

    def make(self, vc, I):
        return NS(self=mk_por(vc, I), size=opt_int(vc, 'size', 'size_is_None'))

    @staticmethod
    def expected(a, o):
        if a.size is None:
            return o.content.slice(o.pos, None)
        s = SInt.of(a.size)
        return ite(s < 0, o.content.slice(o.pos, None), o.content.slice(o.pos, o.pos + s))

    def post(self, vc, a, o, ret):
        n = por_view(a.self)
        yield 'returns_exactly_the_requested_bytes', SBytes.of(ret) == self.expected(a, o)
        yield 'position_advanced_by_returned_length', n.pos == o.pos + SBytes.of(ret).length()
        for nm, f in por_rep(a.self, self.inside):
            yield 'rep_kept:' + nm, f
        yield 'content_unchanged', n.content == o.content

    def havoc(self, vc, I, a):
        self.frame_havoc(vc, a)
        return SBytes.fresh('porread')


class PorTell(PorBase):
    fn = 'utils:PackedObjectReader.tell'
    inline = ()

    def make(self, vc, I):
        return NS(self=mk_por(vc, I))

    def post(self, vc, a, o, ret):
        n = por_view(a.self)
        yield 'tell_is_pos', SInt.of(ret) == o.pos
        yield 'state_unchanged', b_and(n.pos == o.pos, n.kpos == o.kpos)

    def havoc(self, vc, I, a):
        return SInt.fresh('tellret')


class PorInit(Unit):
    fn = 'utils:PackedObjectReader.__init__'
    props = ('C07', 'C01')
    inline = ('utils:PackedObjectReader._update_pos',)
    allowed_exc = ()

    def make(self, vc, I):
        w = vc.world = EM.World(vc)
        ino = w.new_inode(vc, SBytes.fresh('packfile'))
        fh = EM.FileObj(w, ino, 'rb')
        fh.kpos = SInt.fresh('kpos')
        vc.assume(fh.kpos >= 0)
        r = new_obj(I, 'utils:PackedObjectReader')
        return NS(self=r, fhandle=fh, offset=SInt.fresh('offset'), length=SInt.fresh('length'))

    def pre(self, vc, a):
        yield 'offset_nonneg', SInt.of(a.offset) >= 0
        yield 'length_nonneg', SInt.of(a.length) >= 0
        yield 'binary_read_mode', a.fhandle.mode == 'rb'

    def post(self, vc, a, o, ret):
        r = a.self
        yield 'fields', b_and(SInt.of(r.f['_offset']) == a.offset, SInt.of(r.f['_length']) == a.length,
                              SBool.of(r.f['_fhandle'] is a.fhandle))
        yield 'starts_at_zero', SInt.of(r.f['_pos']) == 0
        for nm, f in por_rep(r, inside=False):
            yield 'rep:' + nm, f

    def havoc(self, vc, I, a):
        r = a.self
        r.f['_fhandle'] = a.fhandle
        r.f['_offset'] = a.offset
        r.f['_length'] = a.length
        r.f['_pos'] = SInt.fresh('pos')
        a.fhandle.kpos = SInt.fresh('kpos')
        return None


UNITS = [PorInit(), PorSeek(), PorRead(), PorTell()]
