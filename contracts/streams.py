"""Contracts for the stream classes of disk_objectstore/utils.py (C07, reader half of C01).

Abstract state of every stream: (content, pos) of an in-memory binary file (io.BytesIO semantics).
"""
from .common import *


# ----------------------------------------------------------------------------- PackedObjectReader
def por_view(r):
    fh = r.f['_fhandle']
    off, ln = SInt.of(r.f['_offset']), SInt.of(r.f['_length'])
    return NS(fh=fh, off=off, len=ln, content=fh.content().slice(off, off + ln), pos=SInt.of(r.f['_pos']),
              kpos=fh.kpos)


def por_rep(r, inside=True):
    v = por_view(r)
    cl = [('offset_nonneg', v.off >= 0), ('length_nonneg', v.len >= 0),
          ('pos_in_range', b_and(v.pos >= 0, v.pos <= v.len)),
          ('handle_at_pos', v.kpos == v.off + v.pos)]
    if inside:
        cl.append(('object_inside_file', v.off + v.len <= v.fh.content().length()))
    return cl


def mk_por(vc, I, inside=True):
    w = vc.world = EM.World(vc)
    ino = w.new_inode(vc, SBytes.fresh('packfile'))
    fh = EM.FileObj(w, ino, 'rb')
    fh.kpos = SInt.fresh('kpos')
    r = new_obj(I, 'utils:PackedObjectReader', _fhandle=fh, _offset=SInt.fresh('offset'), _length=SInt.fresh('length'),
                _pos=SInt.fresh('pos'))
    return r


class PorBase(Unit):
    props = ('C07', 'C01')
    inline = ('utils:PackedObjectReader._update_pos', 'utils:PackedObjectReader.tell')
    inside = True

    def pre(self, vc, a):
        return por_rep(a.self, self.inside)

    def snapshot(self, vc, a):
        return por_view(a.self)

    def frame_havoc(self, vc, a):
        r = a.self
        r.f['_fhandle'].kpos = SInt.fresh('kpos')
        r.f['_pos'] = SInt.fresh('pos')


class PorSeek(PorBase):
    fn = 'utils:PackedObjectReader.seek'
    allowed_exc = ('ValueError',)

    def make(self, vc, I):
        return NS(self=mk_por(vc, I), target=SInt.fresh('target'), whence=SInt.fresh('whence'))

    @staticmethod
    def newpos(a, o):
        w, t = SInt.of(a.whence), SInt.of(a.target)
        return ite(w == 0, t, ite(w == 1, o.pos + t, o.len + t))

    @staticmethod
    def in_range(a, o):
        w = SInt.of(a.whence)
        p = PorSeek.newpos(a, o)
        return b_and(b_or(w == 0, w == 1, w == 2), p >= 0, p <= o.len)

    def post(self, vc, a, o, ret):
        n = por_view(a.self)
        yield 'ret_is_new_position', implies(self.in_range(a, o), b_and(SInt.of(ret) == self.newpos(a, o),
                                                                         n.pos == self.newpos(a, o)))
        yield 'ret_is_position_even_if_clamped', SInt.of(ret) == n.pos
        yield 'normal_return_only_in_range_or_clamped', b_and(n.pos >= 0, n.pos <= o.len)
        for nm, f in por_rep(a.self, self.inside):
            yield 'rep_kept:' + nm, f
        yield 'content_unchanged', n.content == o.content

    def exc(self, vc, a, o, e):
        n = por_view(a.self)
        yield 'raises_only_when_out_of_range', b_not(self.in_range(a, o))
        yield 'reject_leaves_position', b_and(n.pos == o.pos, n.kpos == o.kpos)

    def havoc(self, vc, I, a):
        self.frame_havoc(vc, a)
        return SInt.fresh('seekret')

    def exc_cases(self, vc, I, a, o):
        yield 'ValueError', b_not(self.in_range(a, o)), None


class PorRead(PorBase):
    fn = 'utils:PackedObjectReader.read'

    def make(self, vc, I):
        return NS(self=mk_por(vc, I), size=opt_int(vc, 'size', 'size_is_None'))

    @staticmethod
    def expected(a, o):
        if a.size is None:
            return o.content.slice(o.pos, None)
        s = SInt.of(a.size)
        return ite(s < 0, o.content.slice(o.pos, None), o.content.slice(o.pos, o.pos + s))

    def post(self, vc, a, o, ret):
        n = por_view(a.self)
        yield 'returns_exactly_the_requested_bytes', SBytes.of(ret) == self.expected(a, o)
        yield 'position_advanced_by_returned_length', n.pos == o.pos + SBytes.of(ret).length()
        for nm, f in por_rep(a.self, self.inside):
            yield 'rep_kept:' + nm, f
        yield 'content_unchanged', n.content == o.content

    def havoc(self, vc, I, a):
        self.frame_havoc(vc, a)
        return SBytes.fresh('porread')


class PorTell(PorBase):
    fn = 'utils:PackedObjectReader.tell'
    inline = ()

    def make(self, vc, I):
        return NS(self=mk_por(vc, I))

    def post(self, vc, a, o, ret):
        n = por_view(a.self)
        yield 'tell_is_pos', SInt.of(ret) == o.pos
        yield 'state_unchanged', b_and(n.pos == o.pos, n.kpos == o.kpos)

    def havoc(self, vc, I, a):
        return SInt.fresh('tellret')


class PorInit(Unit):
    fn = 'utils:PackedObjectReader.__init__'
    props = ('C07', 'C01')
    inline = ('utils:PackedObjectReader._update_pos',)
    allowed_exc = ()

    def make(self, vc, I):
        w = vc.world = EM.World(vc)
        ino = w.new_inode(vc, SBytes.fresh('packfile'))
        fh = EM.FileObj(w, ino, 'rb')
        fh.kpos = SInt.fresh('kpos')
        vc.assume(fh.kpos >= 0)
        r = new_obj(I, 'utils:PackedObjectReader')
        return NS(self=r, fhandle=fh, offset=SInt.fresh('offset'), length=SInt.fresh('length'))

    def pre(self, vc, a):
        yield 'offset_nonneg', SInt.of(a.offset) >= 0
        yield 'length_nonneg', SInt.of(a.length) >= 0
        yield 'binary_read_mode', a.fhandle.mode == 'rb'

    def post(self, vc, a, o, ret):
        r = a.self
        yield 'fields', b_and(SInt.of(r.f['_offset']) == a.offset, SInt.of(r.f['_length']) == a.length,
                              SBool.of(r.f['_fhandle'] is a.fhandle))
        yield 'starts_at_zero', SInt.of(r.f['_pos']) == 0
        for nm, f in por_rep(r, inside=False):
            yield 'rep:' + nm, f

    def havoc(self, vc, I, a):
        r = a.self
        r.f['_fhandle'] = a.fhandle
        r.f['_offset'] = a.offset
        r.f['_length'] = a.length
        r.f['_pos'] = SInt.fresh('pos')
        a.fhandle.kpos = SInt.fresh('kpos')
        return None


UNITS = [PorInit(), PorSeek(), PorRead(), PorTell()]


# ----------------------------------------------------------------------------- LazyLooseStream (open state)
def lls_view(s):
    fh = s.f['_stream']
    return NS(fh=fh, content=fh.content(), pos=fh.kpos)


def mk_lls(vc, I, content=None, opened=True):
    w = vc.world
    if w is None:
        w = vc.world = EM.World(vc)
    content = SBytes.fresh('loosecontent') if content is None else content
    s = new_obj(I, 'utils:LazyLooseStream', _container=EM.Dummy('container'), _hashkey=vc.fresh_key('hk'), _stream=None)
    s.f['$content'] = content
    if opened:
        ino = w.new_inode(vc, content)
        fh = EM.FileObj(w, ino, 'rb')
        fh.kpos = SInt.fresh('lpos')
        vc.assume(fh.kpos >= 0)
        s.f['_stream'] = fh
    return s


def file_seek_result(o_pos, o_len, target, whence):
    w, t = SInt.of(whence), SInt.of(target)
    return ite(w == 0, t, ite(w == 1, o_pos + t, o_len + t))


class LlsBase(Unit):
    props = ('C07',)
    inline = ('utils:LazyLooseStream.closed',)

    def pre(self, vc, a):
        s = a.self
        yield 'stream_open', SBool.of(s.f['_stream'] is not None and not s.f['_stream'].closed)
        yield 'pos_nonneg', s.f['_stream'].kpos >= 0 if s.f['_stream'] is not None else False

    def snapshot(self, vc, a):
        return lls_view(a.self)


class LlsRead(LlsBase):
    fn = 'utils:LazyLooseStream.read'

    def make(self, vc, I):
        return NS(self=mk_lls(vc, I), size=opt_int(vc, 'size', 'size_is_None'))

    def post(self, vc, a, o, ret):
        n = lls_view(a.self)
        exp = o.content.slice(o.pos, None) if a.size is None else \
            ite(SInt.of(a.size) < 0, o.content.slice(o.pos, None), o.content.slice(o.pos, o.pos + SInt.of(a.size)))
        yield 'like_memory_file', SBytes.of(ret) == exp
        yield 'pos_advanced', n.pos == o.pos + SBytes.of(ret).length()
        yield 'content_unchanged', n.content == o.content

    def havoc(self, vc, I, a):
        a.self.f['_stream'].kpos = SInt.fresh('lpos')
        return SBytes.fresh('llsread')


class LlsSeek(LlsBase):
    fn = 'utils:LazyLooseStream.seek'
    allowed_exc = ('ValueError', 'OSError')

    def make(self, vc, I):
        return NS(self=mk_lls(vc, I), target=SInt.fresh('target'), whence=SInt.of(vc.choose(3, label='whence')))

    def post(self, vc, a, o, ret):
        n = lls_view(a.self)
        p = file_seek_result(o.pos, o.content.length(), a.target, a.whence)
        yield 'like_memory_file', b_and(SInt.of(ret) == p, n.pos == p, p >= 0)
        yield 'content_unchanged', n.content == o.content

    def exc(self, vc, a, o, e):
        n = lls_view(a.self)
        p = file_seek_result(o.pos, o.content.length(), a.target, a.whence)
        yield 'rejects_only_negative_positions', p < 0
        yield 'reject_leaves_position', n.pos == o.pos

    def havoc(self, vc, I, a):
        a.self.f['_stream'].kpos = SInt.fresh('lpos')
        return SInt.fresh('llsseek')

    def exc_cases(self, vc, I, a, o):
        p = file_seek_result(o.pos, o.content.length(), a.target, a.whence)
        yield 'ValueError', p < 0, None


class LlsTell(LlsBase):
    fn = 'utils:LazyLooseStream.tell'

    def make(self, vc, I):
        return NS(self=mk_lls(vc, I))

    def post(self, vc, a, o, ret):
        n = lls_view(a.self)
        yield 'tell_is_pos', b_and(SInt.of(ret) == o.pos, n.pos == o.pos)

    def havoc(self, vc, I, a):
        return SInt.fresh('llstell')


class LlsOpenStreamAssumed(Unit):
    """LazyLooseStream.open_stream as seen by the decompresser: ASSUMED here (it re-enters the container through
    loosen_object); its own obligations are discharged by the container-level units (contracts/loosen.py)."""
    fn = 'utils:LazyLooseStream.open_stream'
    props = ('C07',)
    trusted = True

    def post(self, vc, a, o, ret):
        s = a.self
        fh = s.f['_stream']
        yield 'open', SBool.of(fh is not None and not fh.closed)
        yield 'content_is_object', fh.content() == s.f['$content']
        yield 'pos_nonneg', fh.kpos >= 0

    def havoc(self, vc, I, a):
        s = a.self
        fh = s.f['_stream']
        if fh is None or fh.closed:
            w = vc.world
            ino = w.new_inode(vc, s.f['$content'])
            fh = EM.FileObj(w, ino, 'rb')
            s.f['_stream'] = fh
        return None


# ----------------------------------------------------------------------------- ZlibLikeBaseStreamDecompresser
def joined_of(lst):
    if lst.items is not None:
        out = b''
        for x in lst.items:
            out = EM._cat(SBytes, out, x)
        return SBytes.of(out)
    return SBytes.of(lst.g['joined'])


def cs_content(cs):
    """Content of the compressed stream under a decompresser: a caller-supplied stream or a PackedObjectReader."""
    if isinstance(cs, EM.AbsStream):
        return cs.content
    if isinstance(cs, PyObj) and cs.cls.name == 'PackedObjectReader':
        return por_view(cs).content
    from pyvc.values import Unsupported
    raise Unsupported(f'compressed stream {cs!r}')


def cs_pos(cs):
    return cs.pos if isinstance(cs, EM.AbsStream) else por_view(cs).pos


def cs_set_pos(cs, p):
    if isinstance(cs, EM.AbsStream):
        cs.pos = p
    else:
        cs.f['_pos'] = p
        cs.f['_fhandle'].kpos = SInt.of(cs.f['_offset']) + p


def zd_view(d):
    """Abstract (content, pos) of a decompresser in either mode."""
    cs = d.f['_compressed_stream']
    dz = d.f['_decompressor']
    if not getattr(dz, 'bound', False) and isinstance(dz.inp, bytes) and dz.inp == b'':
        # a decompression object that has consumed nothing yet: its ghost "stream being fed" is the compressed stream
        # it is about to be fed from (ghost assignment, no run-time counterpart)
        dz.Z = cs_content(cs)
        dz.bound = True
    D = EM.dec(True, cs_content(cs))
    if d.f['_use_uncompressed_stream'] is True:
        lv = lls_view(d.f['_lazy_uncompressed_stream'])
        return NS(mode='u', content=lv.content, pos=lv.pos, D=D)
    return NS(mode='c', content=D, pos=SInt.of(d.f['_pos']), D=D, cs=cs, dz=dz, buf=SBytes.of(d.f['_internal_buffer']),
              cspos=cs_pos(cs), inp=SBytes.of(dz.inp), out=SBytes.of(dz.out), tail=SBytes.of(dz.unconsumed_tail),
              eof=SBool.of(dz.eof))


def zd_rep(d):
    v = zd_view(d)
    if v.mode == 'u':
        l = d.f['_lazy_uncompressed_stream']
        fh = l.f['_stream']
        return [('lazy_open', SBool.of(fh is not None and not fh.closed)),
                ('lazy_content_is_inflated_object', fh.content() == v.D),
                ('lazy_pos_nonneg', fh.kpos >= 0)]
    Z = cs_content(v.cs)
    ilen, olen = v.inp.length(), v.out.length()
    return [('pos_nonneg', v.pos >= 0),
            ('stream_is_valid_zlib', EM.zvalid(Z)),
            ('decompressor_follows_stream', SBool.of(v.dz.Z.t.eq(Z.t))),
            ('consumed_is_prefix_of_stream', v.inp == Z.slice(0, ilen)),
            ('tail_is_next_part_of_stream', v.tail == Z.slice(ilen, v.cspos)),
            ('cspos_in_range', b_and(ilen <= v.cspos, v.cspos <= Z.length())),
            ('produced_is_prefix_of_inflation', v.out == v.D.slice(0, olen)),
            ('buffer_is_window_after_position', v.buf == v.D.slice(v.pos, olen)),
            ('pos_not_beyond_produced', b_and(v.pos <= olen, olen <= v.D.length())),
            ('eof_iff_all_consumed', v.eof == (ilen == Z.length())),
            ('eof_means_all_produced', implies(v.eof, olen == v.D.length()))]


def zd_state(vc, d, keep_pos=False):
    """Put the decompresser (compressed mode) into an arbitrary state satisfying the representation invariant,
    defined structurally from four integers (so that the solver only sees arithmetic side conditions)."""
    cs, dz = d.f['_compressed_stream'], d.f['_decompressor']
    Z = cs_content(cs)
    D = EM.dec(True, Z)
    cspos, ilen, olen = SInt.fresh('cspos'), SInt.fresh('ilen'), SInt.fresh('olen')
    pos = SInt.of(d.f['_pos']) if keep_pos else SInt.fresh('zpos')
    vc.assume(b_and(ilen >= 0, ilen <= cspos, cspos <= Z.length(), pos >= 0, pos <= olen, olen <= D.length()))
    cs_set_pos(cs, cspos)
    dz.inp, dz.unconsumed_tail, dz.out = Z.slice(0, ilen), Z.slice(ilen, cspos), D.slice(0, olen)
    dz.eof = vc.fresh_bool('eof')
    vc.assume(dz.eof == (ilen == Z.length()))
    vc.assume(implies(dz.eof, olen == D.length()))
    d.f['_internal_buffer'] = D.slice(pos, olen)
    d.f['_pos'] = pos


def mk_zd(vc, I, mode=None, with_lazy=None):
    """A decompresser in an arbitrary reachable state. mode: 'c' compressed, 'u' switched to the loose copy."""
    base = I.prog.classes['utils:ZlibLikeBaseStreamDecompresser']
    chunk = SInt.fresh('CHUNK')
    vc.assume(chunk >= 1)
    base.attrs['_CHUNKSIZE'] = chunk
    vc.world = EM.World(vc)
    Z = SBytes.fresh('Zstream')
    vc.assume(EM.zvalid(Z))
    vc.assume(Z.length() > 0)          # E-ZLIB: a complete zlib stream is never empty (header + checksum)
    cs = EM.AbsStream(Z, 0, name='compressed_stream')
    dz = EM.DecompObj(I)
    dz.Z = Z
    dz.bound = True
    if mode is None:
        mode = 'cu'[vc.choose(2, label='mode')]
    if with_lazy is None:
        with_lazy = True if mode == 'u' else (vc.choose(2, label='has_lazy') == 0)
    lazy = None
    if with_lazy:
        lazy = mk_lls(vc, I, content=EM.dec(True, Z), opened=(mode == 'u' or vc.choose(2, label='lazy_open') == 0))
    d = new_obj(I, 'utils:ZlibStreamDecompresser', _compressed_stream=cs, _decompressor=dz,
                _internal_buffer=b'', _pos=0, _lazy_uncompressed_stream=lazy,
                _use_uncompressed_stream=(mode == 'u'))
    zd_state(vc, d)
    return d


def zd_havoc(vc, d, keep_pos=False):
    if d.f['_use_uncompressed_stream'] is True:
        d.f['_lazy_uncompressed_stream'].f['_stream'].kpos = SInt.fresh('lpos')
        return
    zd_state(vc, d, keep_pos)


class ZdBase(Unit):
    props = ('C07', 'C01')
    inline = ('utils:ZlibStreamDecompresser.decompressobj_class', 'utils:ZlibStreamDecompresser.decompress_error',
              'utils:LazyLooseStream.closed')

    def pre(self, vc, a):
        return zd_rep(a.self)

    def snapshot(self, vc, a):
        return zd_view(a.self)

    def rep_clauses(self, a):
        for nm, f in zd_rep(a.self):
            yield 'rep_kept:' + nm, f


def read_expected(o, size):
    if size is None:
        return o.content.slice(o.pos, None)
    s = SInt.of(size)
    from pyvc.values import _prove
    if _prove((s >= 0).t):
        return o.content.slice(o.pos, o.pos + s)
    return ite(s < 0, o.content.slice(o.pos, None), o.content.slice(o.pos, o.pos + s))


def read_expected_cases(vc, o, size):
    """read_expected with the clamping of a sized read resolved by a case split (both cases are plain extractions)."""
    from pyvc.values import _prove
    if size is not None and _prove((SInt.of(size) >= 0).t):
        n, ln = SInt.of(size), o.content.length()
        if vc.branch(o.pos + n <= ln, label='spec:read_within'):
            return o.content.slice(o.pos, o.pos + n)
        return o.content.slice(o.pos, ln)
    return read_expected(o, size)


def _loop_read_all(vc, L):
    d = L.self
    v = zd_view(d)
    yield from zd_rep(d)
    yield 'collected_is_what_was_skipped', joined_of(L.data) == v.D.slice(L.__getattr__('$pos0'), v.pos)
    yield 'pos_monotone', v.pos >= L.__getattr__('$pos0')


def _havoc_read_all(vc, L):
    zd_havoc(vc, L.self)
    v = zd_view(L.self)
    pos0 = SInt.of(vc.ghost['$pos0'])
    vc.assume(v.pos >= pos0)
    L.data = MList(None, joined=v.D.slice(pos0, v.pos), n=SInt.fresh('nchunks'))


def _loop_fill(vc, L):
    d = L.self
    v = zd_view(d)
    yield from zd_rep(d)
    yield 'pos_unchanged_while_filling', v.pos == L.__getattr__('$pos0')
    yield 'size_positive', SInt.of(L.size) > 0


def _havoc_fill(vc, L):
    zd_havoc(vc, L.self, keep_pos=True)


class ZdReadCompressed(ZdBase):
    fn = 'utils:ZlibLikeBaseStreamDecompresser._read_compressed'
    props = ('C07', 'C01', 'C18')
    allowed_exc = ()          # for a valid stream no exception may escape (no_spurious_error, F7)
    loops = {
        0: Loop(0, _loop_read_all, havoc=_havoc_read_all, fingerprint='True'),
        1: Loop(1, _loop_fill, havoc=_havoc_fill, fingerprint='len(self._internal_buffer) < size'),
    }

    def make(self, vc, I):
        d = mk_zd(vc, I, mode='c')
        return NS(self=d, size=opt_int(vc, 'size', 'size_is_None'))

    def on_path_start(self, vc, I):
        pass

    def snapshot(self, vc, a):
        o = zd_view(a.self)
        # ghost: position at entry, visible to the loop invariants
        vc.ghost['$pos0'] = o.pos
        return o

    def post(self, vc, a, o, ret):
        n = zd_view(a.self)
        yield 'returns_exactly_the_requested_bytes', SBytes.of(ret) == read_expected_cases(vc, o, a.size)
        yield 'position_advanced_by_returned_length', n.pos == o.pos + SBytes.of(ret).length()
        # C18: a sized read never asks zlib for unbounded output (memory stays proportional to the request)
        yield 'every_inflate_call_is_bounded_by_the_request', b_not(SBool.of(getattr(a.self.f['_decompressor'], 'unbounded_calls', False)))
        yield from self.rep_clauses(a)

    def havoc(self, vc, I, a):
        zd_havoc(vc, a.self)
        return SBytes.fresh('zdread')


def _zd_read_havoc(vc, I, a):
    """Callee-mode effect of read(): the result is *defined* as the specified slice (structural term)."""
    o = a.o
    ret = read_expected(o, a.size)
    d = a.self
    if o.mode == 'u':
        d.f['_lazy_uncompressed_stream'].f['_stream'].kpos = o.pos + ret.length()
        return ret
    from pyvc.values import _prove
    if a.size is not None and _prove((SInt.of(a.size) >= 0).t):
        # case split on whether the request reaches the end: both results are plain extractions with a known length
        n = SInt.of(a.size)
        ln = o.content.length()
        if vc.branch(o.pos + n <= ln, label='read:within'):
            ret, newpos = o.content.slice(o.pos, o.pos + n), o.pos + n
        else:
            ret, newpos = o.content.slice(o.pos, ln), ln
        zd_havoc(vc, d)
        vc.assume(SInt.of(d.f['_pos']) == newpos)
        return ret
    zd_havoc(vc, d)
    vc.assume(SInt.of(d.f['_pos']) == o.pos + ret.length())
    return ret


class ZdRead(ZdBase):
    fn = 'utils:ZlibLikeBaseStreamDecompresser.read'
    allowed_exc = ()

    def make(self, vc, I):
        return NS(self=mk_zd(vc, I), size=opt_int(vc, 'size', 'size_is_None'))

    def post(self, vc, a, o, ret):
        n = zd_view(a.self)
        yield 'like_memory_file', SBytes.of(ret) == read_expected(o, a.size)
        yield 'position_advanced_by_returned_length', n.pos == o.pos + SBytes.of(ret).length()
        yield 'content_unchanged', n.content == o.content
        yield from self.rep_clauses(a)

    def havoc(self, vc, I, a):
        return _zd_read_havoc(vc, I, a)


class ZdTell(ZdBase):
    fn = 'utils:ZlibLikeBaseStreamDecompresser.tell'

    def make(self, vc, I):
        return NS(self=mk_zd(vc, I))

    def post(self, vc, a, o, ret):
        n = zd_view(a.self)
        yield 'tell_is_pos', b_and(SInt.of(ret) == o.pos, n.pos == o.pos)
        yield from self.rep_clauses(a)

    def havoc(self, vc, I, a):
        return SInt.fresh('zdtell')


def zd_seek_spec(a, o, n, ret, mode_after):
    """The decompresser's seek against the in-memory-file spec.
    compressed mode: absolute target t>=0 -> min(t, len) (clamped at the end), returned.
    loose mode: CPython file semantics (positions beyond the end are allowed, as for io.BytesIO)."""
    w, t = SInt.of(a.whence), SInt.of(a.target)
    ln = o.content.length()
    p = ite(w == 0, t, ite(w == 1, o.pos + t, ln + t))
    in_range = b_and(p >= 0, p <= ln)
    yield 'in_range_target_reached_and_returned', implies(in_range, b_and(n.pos == p, SInt.of(ret) == p))
    yield 'ret_is_new_position', SInt.of(ret) == n.pos
    if mode_after == 'c':
        yield 'beyond_end_is_clamped', implies(p > ln, n.pos == ln)
    yield 'never_negative', n.pos >= 0
    yield 'content_unchanged', n.content == o.content


def _loop_skip(vc, L):
    d = L.self
    v = zd_view(d)
    yield from zd_rep(d)
    yield 'skipping_forward_only', b_and(v.pos <= SInt.of(L.target), v.pos >= L.__getattr__('$skipfrom'))


def _havoc_skip(vc, L):
    zd_havoc(vc, L.self)


class ZdSeekInternal(ZdBase):
    fn = 'utils:ZlibLikeBaseStreamDecompresser._seek_internal'
    allowed_exc = ('ValueError', 'NotImplementedError', 'OSError')
    inline = ZdBase.inline + ('utils:ZlibLikeBaseStreamDecompresser.tell',)
    loops = {0: Loop(0, _loop_skip, havoc=_havoc_skip, fingerprint='self.tell() < target')}

    def make(self, vc, I):
        d = mk_zd(vc, I)
        return NS(self=d, target=SInt.fresh('target'), whence=SInt.of(vc.choose(3, label='whence')))

    def snapshot(self, vc, a):
        o = zd_view(a.self)
        vc.ghost['$skipfrom'] = 0 if o.mode == 'c' else o.pos
        return o

    def post(self, vc, a, o, ret):
        n = zd_view(a.self)
        yield from zd_seek_spec(a, o, n, ret, n.mode)
        yield 'mode_kept', SBool.of(n.mode == o.mode)
        yield from self.rep_clauses(a)

    def exc(self, vc, a, o, e):
        n = zd_view(a.self)
        w, t = SInt.of(a.whence), SInt.of(a.target)
        p = ite(w == 0, t, ite(w == 1, o.pos + t, o.content.length() + t))
        if o.mode == 'c':
            yield 'rejects_only_negative_or_end_relative', b_or(p < 0, w == 2)
        else:
            yield 'rejects_only_negative', p < 0
        yield 'reject_leaves_position', n.pos == o.pos
        yield from self.rep_clauses(a)

    def havoc(self, vc, I, a):
        zd_havoc(vc, a.self)
        return SInt.fresh('zdseek')

    def exc_cases(self, vc, I, a, o):
        w, t = SInt.of(a.whence), SInt.of(a.target)
        p = ite(w == 0, t, ite(w == 1, o.pos + t, o.content.length() + t))
        if o.mode == 'c':
            yield 'ValueError', b_and(p < 0, w != 2), None
            yield 'NotImplementedError', w == 2, None
        else:
            yield 'ValueError', p < 0, None


class ZdSeek(ZdBase):
    fn = 'utils:ZlibLikeBaseStreamDecompresser.seek'
    allowed_exc = ('ValueError', 'NotImplementedError', 'OSError')

    def make(self, vc, I):
        d = mk_zd(vc, I)
        return NS(self=d, target=SInt.fresh('target'), whence=SInt.fresh('whence'))

    def post(self, vc, a, o, ret):
        n = zd_view(a.self)
        w = SInt.of(a.whence)
        yield 'whence_valid', b_or(w == 0, w == 1, w == 2)
        yield from zd_seek_spec(a, o, n, ret, n.mode)
        yield from self.rep_clauses(a)

    def exc(self, vc, a, o, e):
        n = zd_view(a.self)
        w, t = SInt.of(a.whence), SInt.of(a.target)
        p = ite(w == 0, t, ite(w == 1, o.pos + t, o.content.length() + t))
        has_lazy = a.self.f['_lazy_uncompressed_stream'] is not None
        yield 'rejects_only_out_of_range_or_unsupported', b_or(b_not(b_or(w == 0, w == 1, w == 2)), p < 0,
                                                              b_and(w == 2, SBool.of(not has_lazy)))
        yield 'reject_leaves_position', n.pos == o.pos
        yield 'content_unchanged', n.content == o.content
        yield from self.rep_clauses(a)

    def havoc(self, vc, I, a):
        zd_havoc(vc, a.self)
        return SInt.fresh('zdseek')


# ----------------------------------------------------------------------------- CallbackStreamWrapper
def mk_csw(vc, I):
    inner = EM.AbsStream(SBytes.fresh('inner'), SInt.fresh('ipos'), short_reads=True)
    vc.assume(inner.pos >= 0)
    cb = EM.CallbackFn() if vc.choose(2, label='has_callback') == 0 else None
    return new_obj(I, 'utils:CallbackStreamWrapper', _stream=inner, _callback=cb, _total_length=SInt.fresh('total'),
                   _description='d', _update_every=SInt.fresh('every'), _since_last_update=SInt.fresh('since'))


class CswRead(Unit):
    fn = 'utils:CallbackStreamWrapper.read'
    props = ('C07',)

    def make(self, vc, I):
        return NS(self=mk_csw(vc, I), size=opt_int(vc, 'size', 'size_is_None'))

    def snapshot(self, vc, a):
        s = a.self.f['_stream']
        return NS(content=s.content, pos=s.pos)

    def post(self, vc, a, o, ret):
        s = a.self.f['_stream']
        r = SBytes.of(ret)
        yield 'returns_a_prefix_of_the_rest', o.content.slice(o.pos, None).startswith(r)
        yield 'position_advanced_by_returned_length', s.pos == o.pos + r.length()
        if a.size is not None:
            yield 'at_most_size', implies(SInt.of(a.size) >= 0, r.length() <= SInt.of(a.size))
            yield 'empty_only_at_end', implies(b_and(SInt.of(a.size) > 0, r.length() == 0), o.pos >= o.content.length())
        else:
            yield 'read_all', r == o.content.slice(o.pos, None)


class CswSeek(Unit):
    fn = 'utils:CallbackStreamWrapper.seek'
    props = ('C07',)
    allowed_exc = ('ValueError',)
    inline = ('utils:CallbackStreamWrapper.tell', 'utils:CallbackStreamWrapper.close_callback')

    def make(self, vc, I):
        return NS(self=mk_csw(vc, I), target=SInt.fresh('target'), whence=SInt.of(vc.choose(3, label='whence')))

    def snapshot(self, vc, a):
        s = a.self.f['_stream']
        return NS(content=s.content, pos=s.pos)

    def post(self, vc, a, o, ret):
        s = a.self.f['_stream']
        p = file_seek_result(o.pos, o.content.length(), a.target, a.whence)
        yield 'like_memory_file', b_and(SInt.of(ret) == p, s.pos == p)

    def exc(self, vc, a, o, e):
        s = a.self.f['_stream']
        p = file_seek_result(o.pos, o.content.length(), a.target, a.whence)
        yield 'rejects_only_negative', p < 0
        yield 'reject_leaves_position', s.pos == o.pos


class CswTell(Unit):
    fn = 'utils:CallbackStreamWrapper.tell'
    props = ('C07',)

    def make(self, vc, I):
        return NS(self=mk_csw(vc, I))

    def snapshot(self, vc, a):
        return NS(pos=a.self.f['_stream'].pos)

    def post(self, vc, a, o, ret):
        yield 'tell_is_pos', b_and(SInt.of(ret) == o.pos, a.self.f['_stream'].pos == o.pos)


# ----------------------------------------------------------------------------- ZeroStream
class ZeroRead(Unit):
    fn = 'utils:ZeroStream.read'
    props = ('C07',)

    def make(self, vc, I):
        z = new_obj(I, 'utils:ZeroStream', _length=SInt.fresh('length'), _pos=SInt.fresh('pos'))
        return NS(self=z, size=opt_int(vc, 'size', 'size_is_None'))

    def pre(self, vc, a):
        z = a.self
        yield 'rep', b_and(SInt.of(z.f['_pos']) >= 0, SInt.of(z.f['_pos']) <= SInt.of(z.f['_length']))

    def snapshot(self, vc, a):
        return NS(pos=SInt.of(a.self.f['_pos']), len=SInt.of(a.self.f['_length']))

    def post(self, vc, a, o, ret):
        z = a.self
        r = SBytes.of(ret)
        rest = o.len - o.pos
        want = rest if a.size is None else ite(SInt.of(a.size) < 0, rest, smin(rest, SInt.of(a.size)))
        yield 'length_as_memory_file', r.length() == want
        yield 'pos_advanced', SInt.of(z.f['_pos']) == o.pos + r.length()
        yield 'rep_kept', b_and(SInt.of(z.f['_pos']) >= 0, SInt.of(z.f['_pos']) <= o.len)


UNITS += [LlsRead(), LlsSeek(), LlsTell(), LlsOpenStreamAssumed(), ZdReadCompressed(), ZdRead(), ZdTell(),
          ZdSeekInternal(), ZdSeek(), CswRead(), CswSeek(), CswTell(), ZeroRead()]
