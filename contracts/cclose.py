"""Contract for Container.close (and __exit__, which only calls it): after close() the handle holds no SQLite connection
(C18: "after any sequence of operations followed by closing the handle, the process holds no open file descriptor inside the
container folder"), whatever combination of operation session / container session was open, with or without a pending
read snapshot, and nothing else is touched."""
from .common import *
from .cmodel import *
from pyvc import sqlmodel as SQL


class Close(CUnit):
    fn = 'container:Container.close'
    props = ('C18',)
    allowed_exc = ()

    def make(self, vc, I):
        w = mk_world(vc)
        op = vc.choose(3, label='operation_session')          # none / open, no transaction / open with a pinned snapshot
        c = mk_container(vc, I, w, session='open' if op else 'none', hash_types=('sha256',))
        if op == 2:
            c.f['_operation_session'].view = SQL.Table.fresh('pinned')
        if vc.choose(2, label='container_session') == 1:
            idx = FS.PathVal(c.f['$dirs'].folder.base, ('packs.idx',))
            c.f['_container_session'] = SQL.SessionObj(I, SQL.db_of(I), idx)
        return NS(self=c)

    def snapshot(self, vc, a):
        w = vc.world
        db = SQL.db_of_world(w, vc)
        return NS(other=[f.num for f in w.open_fds if f.what != 'sqlite'], T=db.table, ent=w.ent, idata=w.idata)

    def post(self, vc, a, o, ret):
        w, c = vc.world, a.self
        db = SQL.db_of_world(w, vc)
        yield 'no_sqlite_connection_left_open', SBool.of(not [f for f in w.open_fds if f.what == 'sqlite'])
        yield 'no_connection_registered_on_the_index', SBool.of(not db.open_connections)
        yield 'sessions_forgotten', SBool.of(c.f['_operation_session'] is None and c.f['_container_session'] is None)
        yield 'other_descriptors_untouched', SBool.of([f.num for f in w.open_fds if f.what != 'sqlite'] == o.other)
        yield 'store_untouched', SBool.of(db.table is o.T and w.ent is o.ent and w.idata is o.idata)


class Exit(Close):
    fn = 'container:Container.__exit__'
    inline = ACCESSORS + ('container:Container.close',)

    def make(self, vc, I):
        a = Close.make(self, vc, I)
        a.exc_type = a.exc_value = a.traceback = None
        return a


UNITS = [Close(), Exit()]
