"""Contract for utils.safe_flush_to_disk (C06 publish-after-durable, C18 no descriptor leak).

Verified under three platform profiles: Linux (fcntl without F_FULLFSYNC), macOS (fcntl.F_FULLFSYNC = 51) and
Windows (no fcntl, os.name == 'nt').
"""
from .common import *
from pyvc import fsmodel as FS

PROFILES = [
    {'name': 'linux', 'os.name': 'posix', 'fcntl': True, 'F_FULLFSYNC': None},
    {'name': 'macos', 'os.name': 'posix', 'fcntl': True, 'F_FULLFSYNC': 51},
    {'name': 'windows', 'os.name': 'nt', 'fcntl': False, 'F_FULLFSYNC': None},
]


def mk_world(vc):
    w = vc.world = EM.World(vc)
    FS.init_fs(vc, w)
    return w


def mk_write_handle(vc, I, w, mode='ab', wrapped=None, path=None):
    """An open write handle with arbitrary flushed content and an arbitrary pending user-space buffer."""
    ino = w.new_inode(vc, SBytes.fresh('flushed'))
    w.set_synced(ino, SInt.fresh('synced0'))
    vc.assume(b_and(w.synced(ino) >= 0, w.synced(ino) <= w.data(ino).length()))
    path = path or FS.PathVal(SInt.fresh('dir'), (SStr.fresh('fname'),))
    fh = EM.FileObj(w, ino, mode, path=path, at_end=True)
    fh.buf = SBytes.fresh('pending')
    if wrapped is None:
        wrapped = vc.choose(2, label='handle_kind') == 1
    if wrapped:
        h = new_obj(I, 'utils:HashWriterWrapper', _write_stream=fh, _hash_type='sha256', _hash=EM.Hasher('sha256'),
                    _position=SInt.fresh('position'))
        return h, fh
    return fh, fh


class SafeFlush(Unit):
    fn = 'utils:safe_flush_to_disk'
    props = ('C06', 'C18')
    profiles = PROFILES
    inline = ('utils:HashWriterWrapper.fileno', 'utils:HashWriterWrapper.flush')

    def make(self, vc, I):
        w = mk_world(vc)
        h, fh = mk_write_handle(vc, I, w)
        a = NS(fhandle=h, real_path=fh.name_path, use_fullsync=(vc.choose(2, label='use_fullsync') == 1))
        a.fh = fh
        return a

    def snapshot(self, vc, a):
        w = vc.world
        return NS(logical=a.fh.logical(), fds=list(w.open_fds), synced=w.synced(a.fh.ino))

    def post(self, vc, a, o, ret):
        w, fh = vc.world, a.fh
        yield 'all_written_bytes_reach_the_file', fh.content() == o.logical
        yield 'nothing_left_in_user_space_buffer', SBytes.of(fh.buf).length() == 0
        yield 'file_content_forced_to_stable_storage', w.synced(fh.ino) == fh.content().length()
        yield 'no_descriptor_leaked', SBool.of([f.num for f in w.open_fds] == [f.num for f in o.fds])
        yield 'handle_left_open', SBool.of(not fh.closed)

    # callee mode
    def bind_actual(self, I, f, args, kwargs):
        a = super().bind_actual(I, f, args, kwargs)
        h = a.fhandle
        a.fh = h.f['_write_stream'] if isinstance(h, PyObj) else h
        return a

    def pre(self, vc, a):
        yield 'handle_open', SBool.of(isinstance(a.fh, EM.FileObj) and not a.fh.closed)

    def havoc(self, vc, I, a):
        fh = a.fh
        w = vc.world
        fh._flush(I, 'safe_flush_to_disk')
        w.set_synced(fh.ino, fh.content().length())
        EM.effect(I, 'fsync', fd=fh.fdrec)
        return None


UNITS = [SafeFlush()]
