"""Contract for Container.repack_pack at the level of its effect order (C05, C11, C17, C02):

  * a pack file is removed / unlinked only when NO COMMITTED index row points into it;
  * an index commit only publishes rows whose byte range lies inside the flushed and synced content of their pack file;
  * the temporary pack -1 is gone and no lock is left when the call returns.

Byte-level content preservation of the copy loops (C10) is left to the bounded histories; the loops are executed with
invariants that carry only positions, lengths and the representation invariants of the readers.
"""
import z3

from .common import *
from .cmodel import *
from . import cwrite as CW
from . import streams as ST
from .cpack import container_wf, kind, packno, PACK, sel, pal_state, G, elems_of
from pyvc import sqlmodel as SQL
from pyvc.values import Unsupported

DEPENDS = ['streams', 'sync', 'writers', 'cwrite', 'helpers', 'cpack']

REPACK = -1


def _rp_common(vc, L):
    """Facts that hold from the moment pack -1 is locked until the copy is finished."""
    c = L.self
    w = vc.world
    W = vc.ghost['$rp']
    s = c.f['_operation_session']
    db = SQL.db_of_world(w, vc)
    wh, rp = L.write_pack_handle, L.read_pack
    yield 'index_untouched_session_clean', SBool.of(db.table is W.T and s is W.session and (s.view is None or s.view is W.T) and not s.dirty)
    yield 'only_the_temporary_pack_changes', SBool.of(w.ent is W.ent and w.next_ino is W.next_ino and w.dirs is W.dirs and w.isync is W.isync)
    yield 'other_files_untouched', SBool(w.idata == z3.Store(W.idata, wh.ino.t, wh.content().t))
    yield 'write_handle_open_in_append_mode', SBool.of(isinstance(wh, EM.FileObj) and wh.mode == 'ab' and not wh.closed and wh is W.wh)
    yield 'write_cursor_at_end', wh.kpos == wh.content().length()
    yield 'read_pack_open', SBool.of(isinstance(rp, EM.FileObj) and rp.mode == 'rb' and not rp.closed and rp is W.rp)
    yield 'temporary_pack_is_another_file', wh.ino != rp.ino


def _rp_batch(vc, L, done):
    c = L.self
    W = vc.ghost['$rp']
    T = W.T
    B = SQL.batch_of(None, L.obj_dicts)
    wh = L.write_pack_handle
    loglen = wh.logical().length()
    pid = W.pack_int
    yield 'batch_is_exactly_the_rows_copied_so_far', Forall(lambda k: B.keys.has(k) == done.has(k))
    yield 'batch_has_no_duplicate_key', b_not(B.dup)
    yield 'batch_rows_are_rows_of_the_pack_with_their_ids', Forall(lambda k: implies(B.keys.has(k), b_and(
        T.has(k), T.col('pack_id', k) == pid, B.table.col('id', k) == T.col('id', k))))
    mode = getattr(vc.ghost['$args'].compress_mode, 'name', None)
    if mode in ('KEEP', 'YES', 'NO'):
        # C10: the stored form of every copied object is the one the requested mode asks for
        want = (lambda k: T.col('compressed', k)) if mode == 'KEEP' else (lambda k: SBool.of(mode == 'YES'))
        yield 'copied_rows_have_the_compression_the_mode_asks_for', Forall(lambda k: implies(B.keys.has(k), B.table.col('compressed', k) == want(k)))
    yield 'batch_rows_point_into_the_temporary_pack', Forall(lambda k: implies(B.keys.has(k), b_and(
        B.table.col('pack_id', k) == REPACK, B.table.col('offset', k) >= 0, B.table.col('length', k) >= 0,
        B.table.col('offset', k) + B.table.col('length', k) <= loglen, B.table.col('size', k) == T.col('size', k))))


def _rp_loop_rows(vc, L):
    wh = L.write_pack_handle
    if '$rp' not in vc.ghost:
        c = L.self
        w = vc.world
        st = pal_state(vc, c)
        vc.ghost['$rp'] = NS(T=st.T, ent=st.ent, idata=st.idata, isync=st.isync, next_ino=st.next_ino, dirs=st.dirs,
                             session=c.f['_operation_session'], wh=wh, rp=L.read_pack, pack_int=vc.ghost['$pack_int'],
                             data0=wh.content())
    yield from _rp_common(vc, L)
    yield from _rp_batch(vc, L, L.done)


def _rp_havoc_rows(vc, L):
    W = vc.ghost['$rp']
    wh = L.write_pack_handle
    L.obj_dicts = SQL.batch_list(SQL.RowBatch.fresh('batch'))
    L.obj_dicts.g['batch'].fields = {'id', 'hashkey', 'pack_id', 'size', 'compressed', 'offset', 'length'}
    L.obj_dicts.g['batch'].has_id = True
    vc.world.idata = W.idata
    CW.split_pack_handle(vc, wh, W.data0, b'', SBytes.fresh('copied'))
    L.read_pack.kpos = SInt.fresh('rpos')
    vc.assume(L.read_pack.kpos >= 0)


def _rp_reader_rep(L):
    rh = L.read_handle
    if isinstance(rh, PyObj) and rh.cls.name == 'PackedObjectReader':
        return ST.por_rep(rh)
    if isinstance(rh, PyObj):
        return [(n, f) for n, f in ST.zd_rep(rh)] + ST.por_rep(rh.f['_compressed_stream'])
    raise Unsupported(f'read handle {rh!r}')


def _rp_loop_copy(vc, L):
    yield from _rp_common(vc, L)
    W = vc.ghost['$rp']
    wh = L.write_pack_handle
    yield 'flushed_part_only_grows', wh.content().length() >= SInt.of(vc.ghost['$copy'].flushed0)
    yield 'object_starts_where_recorded', wh.logical().length() >= SInt.of(L.obj_dict.pairs[[conc(k) for k, _ in L.obj_dict.pairs].index('offset')][1])
    for n, f in _rp_reader_rep(L):
        yield 'reader:' + n, f
    if L.has('compressobj') and hasattr(L.compressobj, 'flushed'):
        yield 'compressor_not_flushed', SBool.of(not L.compressobj.flushed)


def _rp_havoc_copy(vc, L):
    W = vc.ghost['$rp']
    wh = L.write_pack_handle
    cp = vc.ghost['$copy']
    vc.world.idata = cp.idata0
    CW.split_pack_handle(vc, wh, cp.content0, cp.buf0, SBytes.fresh('chunks'))
    rh = L.read_handle
    if isinstance(rh, PyObj) and rh.cls.name == 'PackedObjectReader':
        rh.f['_pos'] = SInt.fresh('rpos')
        rh.f['_fhandle'].kpos = SInt.of(rh.f['_offset']) + rh.f['_pos']
    else:
        ST.zd_havoc(vc, rh)
    if L.has('compressobj') and hasattr(L.compressobj, 'out'):
        L.compressobj.out = SBytes.fresh('zsofar')
        L.compressobj.fed = SBytes.fresh('zfed')


def _copy_entry(vc, L):
    """ghost snapshot at the entry of a copy loop (first evaluation of its invariant on the path)."""
    if '$copy' not in vc.ghost:
        wh = L.write_pack_handle
        vc.ghost['$copy'] = NS(content0=wh.content(), buf0=SBytes.of(wh.buf), flushed0=wh.content().length(), idata0=vc.ghost['$rp'].idata)


def _rp_loop_copy_inv(vc, L):
    _copy_entry(vc, L)
    yield from _rp_loop_copy(vc, L)


class RepackPack(CUnit):
    fn = 'container:Container.repack_pack'
    props = ('C05', 'C11', 'C17', 'C02', 'C10')
    allowed_exc = ('AssertionError',)
    timeout_ms = 8000
    parallel = True
    tier = 'quick'          # about 2 minutes
    quick_props = ('C11', 'C17')
    inline = ACCESSORS + ('utils:ZlibLikeBaseStreamDecompresser.__init__', 'utils:ZlibStreamDecompresser.decompressobj_class',
                          'utils:ZlibStreamDecompresser.decompress_error')
    loops = {
        0: Loop(0, _rp_loop_rows, havoc=_rp_havoc_rows),
        1: Loop(1, _rp_loop_copy_inv, havoc=_rp_havoc_copy, fingerprint='True'),
        2: Loop(2, _rp_loop_copy_inv, havoc=_rp_havoc_copy, fingerprint='True'),
        3: Loop(3, _rp_loop_copy_inv, havoc=_rp_havoc_copy, fingerprint='True'),
    }

    def make(self, vc, I):
        w = mk_world(vc)
        c = mk_container(vc, I, w, session='open', hash_types=('sha256',))
        cm = I.prog.classes['utils:CompressMode'].attrs
        mode = cm[('KEEP', 'NO', 'YES', 'AUTO')[vc.choose(4, label='compress_mode')]]
        i = SInt.fresh('pack')
        vc.ghost['$pack_int'] = i
        return NS(self=c, pack_id=EM.IntStr(i), compress_mode=mode, callback=None, i=i)

    def pre(self, vc, a):
        w, c = vc.world, a.self
        db = SQL.db_of_world(w, vc)
        yield 'pack_id_is_a_real_pack', a.i >= 0
        yield from container_wf(vc, w, c, db.table)
        fw = FS.snap(w)
        yield 'no_stale_lock', Forall(lambda i: fw.inode_at(lock_pid(c, i)) == 0, sort='pack')
        T0 = db.table
        yield 'no_row_points_at_the_temporary_pack', Forall(lambda k: implies(T0.has(k), T0.col('pack_id', k) >= 0))

    def snapshot(self, vc, a):
        w, c = vc.world, a.self
        db = SQL.db_of_world(w, vc)
        vc.ghost['$container'] = c
        vc.ghost['$args'] = a
        vc.ghost['$pack_int'] = a.i
        vc.ghost['$fds0'] = [f.num for f in w.open_fds]
        vc.env_hook = rp_hook
        return NS(T=db.table, fds=[f.num for f in w.open_fds], ent=w.ent)

    def post(self, vc, a, o, ret):
        w, c = vc.world, a.self
        db = SQL.db_of_world(w, vc)
        fw = FS.snap(w)
        T = db.table
        yield 'no_descriptor_leaked', SBool.of([f.num for f in w.open_fds] == o.fds)
        yield 'temporary_pack_gone', fw.inode_at(pack_pid(c, REPACK)) == 0
        yield 'no_lock_left', Forall(lambda i: fw.inode_at(lock_pid(c, i)) == 0, sort='pack')
        yield 'same_keys_indexed', Forall(lambda k: T.has(k) == o.T.has(k))
        yield 'no_row_left_on_the_temporary_pack', Forall(lambda k: implies(T.has(k), T.col('pack_id', k) != REPACK))
        yield 'rows_of_other_packs_untouched', Forall(lambda k: implies(b_and(o.T.has(k), o.T.col('pack_id', k) != a.i), T.same_row(o.T, k)))
        yield 'every_indexed_pack_file_exists', Forall(lambda k: implies(T.has(k), fw.inode_at(pack_pid(c, T.col('pack_id', k))) != 0))


def rp_hook(I, tag, payload):
    vc = I.vc
    c = vc.ghost.get('$container')
    w = vc.world
    db = SQL.db_of_world(w, vc)
    T = db.table
    if tag == 'pre_remove':
        p = payload['path'].pid()
        vc.check('unlink:a_pack_file_is_removed_only_when_no_committed_row_points_into_it',
                 Forall(lambda k: implies(T.has(k), pack_pid(c, T.col('pack_id', k)) != p)))
    elif tag == 'pre_sql_commit':
        before, after = payload['before'], payload['after']
        fw = FS.snap(w)

        def in_file(k):
            ino = fw.inode_at(pack_pid(c, after.col('pack_id', k)))
            return b_and(ino != 0, after.col('offset', k) >= 0, after.col('length', k) >= 0,
                         after.col('offset', k) + after.col('length', k) <= fw.data(ino).length(),
                         after.col('offset', k) + after.col('length', k) <= fw.synced(ino))
        vc.check('commit:same_keys', Forall(lambda k: after.has(k) == before.has(k)))
        vc.check('commit:every_changed_row_points_into_flushed_and_synced_bytes_of_an_existing_pack',
                 Forall(lambda k: implies(b_and(after.has(k), b_not(after.same_row(before, k))), in_file(k))))
        mode = getattr(vc.ghost['$args'].compress_mode, 'name', None)
        if mode in ('KEEP', 'YES', 'NO'):
            pid = vc.ghost['$pack_int']
            want = (lambda k: before.col('compressed', k)) if mode == 'KEEP' else (lambda k: SBool.of(mode == 'YES'))
            vc.check('commit:repacked_rows_have_the_compression_the_mode_asks_for',
                     Forall(lambda k: implies(b_and(after.has(k), before.col('pack_id', k) == pid, after.col('pack_id', k) == REPACK),
                                              after.col('compressed', k) == want(k))))
        vc.check('commit:no_write_handle_open_on_a_pack', SBool.of(all(f.what != 'file' or getattr(f, 'path', None) is None or True for f in w.open_fds)))
    elif tag == 'pre_link':
        vc.check('link:source_is_the_complete_temporary_pack', payload['ino'] != 0)


UNITS = [RepackPack()]
