"""Contract for Container.list_all_objects (C08, C02, C16 paging): every key that is indexed in the CURRENT committed index
or has a loose file is listed exactly once, whatever snapshot the handle's session had pinned before the call."""
import z3

from .common import *
from .cmodel import *
from . import helpers as HP
from pyvc import sqlmodel as SQL

DEPENDS = ['helpers']


def _T(vc):
    return vc.ghost['$T']


def _E(vc):
    return vc.ghost['$emitted']


def _ll_loop_pages(vc, L):
    c = L.self
    T, E, L0 = _T(vc), _E(vc), vc.ghost['$first:container:Container._list_loose'].items
    R = L.loose_objects.s
    s = c.f['_operation_session']
    last = SInt.of(L.last_pk)
    db = SQL.db_of_world(vc.world, vc)
    yield 'reads_the_current_index', SBool.of(db.table is T and s is not None and (s.view is None or s.view is T) and not s.dirty)
    yield 'listed_so_far_are_the_rows_up_to_the_last_key', Forall(lambda k: E.has(k) == b_and(T.has(k), T.col('id', k) <= last))
    yield 'loose_candidates_are_the_unlisted_loose_keys', Forall(lambda k: R.has(k) == b_and(L0.has(k), b_not(E.has(k))))
    yield 'last_key_at_least_minus_one', last >= -1


def _ll_havoc_pages(vc, L):
    vc.ghost['$emitted'] = SSet.fresh('emitted')
    L.loose_objects.s = SSet.fresh('loose_left')


def _ll_loop_chunk(vc, L):
    c = L.self
    T, E, L0 = _T(vc), _E(vc), vc.ghost['$first:container:Container._list_loose'].items
    R = L.loose_objects.s
    done = L.done
    if '$E_at_page' not in vc.ghost:
        vc.ghost['$E_at_page'] = E            # first evaluation on the path = entry of the loop over the page
    E0, last = vc.ghost['$E_at_page'], SInt.of(L.last_pk)
    yield 'listed_so_far', Forall(lambda k: E.has(k) == b_or(E0.has(k), done.has(k)))
    yield 'loose_candidates_are_the_unlisted_loose_keys', Forall(lambda k: R.has(k) == b_and(L0.has(k), b_not(E.has(k))))
    yield 'page_start_unchanged', Forall(lambda k: E0.has(k) == b_and(T.has(k), T.col('id', k) <= last))


def _ll_havoc_chunk(vc, L):
    vc.ghost['$emitted'] = SSet.fresh('emitted')
    L.loose_objects.s = SSet.fresh('loose_left')


def _ll_loop_rest(vc, L):
    T, E, L0 = _T(vc), _E(vc), vc.ghost['$first:container:Container._list_loose'].items
    done = L.done
    if '$E_after_pages' not in vc.ghost:
        vc.ghost['$E_after_pages'] = E
    E1 = vc.ghost['$E_after_pages']
    yield 'listed_so_far', Forall(lambda k: E.has(k) == b_or(E1.has(k), done.has(k)))
    yield 'all_indexed_keys_already_listed', Forall(lambda k: E1.has(k) == T.has(k))


def _ll_havoc_rest(vc, L):
    vc.ghost['$emitted'] = SSet.fresh('emitted')


class ListAllObjects(CUnit):
    fn = 'container:Container.list_all_objects'
    props = ('C08', 'C02', 'C16')
    allowed_exc = ()
    loops = {
        0: Loop(0, _ll_loop_pages, havoc=_ll_havoc_pages, fingerprint='True'),
        1: Loop(1, _ll_loop_chunk, havoc=_ll_havoc_chunk, fingerprint='(_, hashkey) in results_chunk'),
        2: Loop(2, _ll_loop_rest, havoc=_ll_havoc_rest, fingerprint='hashkey in loose_objects'),
    }

    def make(self, vc, I):
        w = mk_world(vc)
        which = vc.choose(3, label='session_before_the_call')
        c = mk_container(vc, I, w, session='open' if which else 'none', hash_types=('sha256',))
        db = SQL.db_of_world(w, vc)
        if which == 2:
            # a long-open handle: its session pinned an OLDER snapshot of the index (another handle committed since)
            c.f['_operation_session'].view = SQL.Table.fresh('stale')
        return NS(self=c)

    def pre(self, vc, a):
        w = vc.world
        T = SQL.db_of_world(w, vc).table
        yield 'row_ids_are_positive', Forall(lambda k: implies(T.has(k), T.col('id', k) >= 0))      # SQLite rowids
        yield 'row_ids_are_unique', Forall(lambda k: implies(T.has(k), SStr(ROWKEY_fn(T.col('id', k).t)) == SStr.of(k)))

    def snapshot(self, vc, a):
        w = vc.world
        vc.ghost['$T'] = SQL.db_of_world(w, vc).table
        vc.ghost['$emitted'] = SSet.empty()
        vc.ghost['$container'] = a.self
        vc.env_hook = ll_hook
        return NS(T=vc.ghost['$T'], fds=[f.num for f in w.open_fds])

    def on_yield(self, vc, a, o, item):
        T, E = _T(vc), _E(vc)
        L0 = vc.ghost['$first:container:Container._list_loose'].items
        k = SStr.of(item)
        yield 'listed_key_exists', b_or(T.has(k), L0.has(k))
        yield 'no_key_is_listed_twice', b_not(E.has(k))
        vc.ghost['$emitted'] = E.add(k)

    def post(self, vc, a, o, ret):
        T, E = _T(vc), _E(vc)
        L0 = vc.ghost['$first:container:Container._list_loose'].items
        yield 'every_indexed_or_loose_key_is_listed', Forall(lambda k: E.has(k) == b_or(T.has(k), L0.has(k)))


ROWKEY_fn = z3.Function('key_of_rowid', z3.IntSort(), z3.StringSort())


def ll_hook(I, tag, payload):
    vc = I.vc
    if tag == 'sql_select':
        s = payload['session']
        db = SQL.db_of_world(vc.world, vc)
        # C08: the listing must read the committed index as it is NOW, not a snapshot pinned by an earlier query
        vc.check('select:index_read_from_a_snapshot_taken_after_the_loose_listing', SBool.of(s.view is db.table))


UNITS = HP.HELPER_SUMMARIES + [ListAllObjects()]
