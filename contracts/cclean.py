"""Contract for Container.clean_storage on a container WITHOUT duplicate files (precondition: the duplicates folder is
empty; the duplicate-recovery branch works on `name.partition('.')` strings and stays with the bounded histories):

  * the index is read from a snapshot taken AFTER the loose folder was listed (the handle is closed and re-opened);
  * a loose file is unlinked only when its key is in the committed index (C05/C02: nothing is lost);
  * every listed loose file whose key is indexed IS unlinked, whichever lookup strategy (chunked IN queries / full ordered
    scan merged with the sorted listing) and chunk size is used (C16), and no other loose file, no pack, no row changes.
"""
import z3

from .common import *
from .cmodel import *
from . import helpers as HP
from . import cwrite as CWL
from pyvc import sqlmodel as SQL
from pyvc.values import Unsupported

DEPENDS = ['helpers']


def G(vc, n):
    return vc.ghost[n]


def L0_of(vc):
    return vc.ghost['$first:container:Container._list_loose'].items


def found(L):
    lst = L.existing_packed_hashkeys
    if lst.items is not None:
        s = SSet.empty()
        for x in lst.items:
            s = s.add(x)
        return s
    return lst.g['elems']


def no_repetition(L):
    lst = L.existing_packed_hashkeys
    if lst.items is not None:
        if len(lst.items) > 1:
            raise Unsupported('concrete list of found keys with several elements')
        return SBool.of(True)
    return SBool.of(lst.g.get('distinct', False))


def lookup_frame(vc, L):
    yield 'found_list_has_no_repetition', no_repetition(L)
    c = L.self
    s = c.f['_operation_session']
    db = SQL.db_of_world(vc.world, vc)
    T = G(vc, '$T')
    yield 'lookup_reads_the_current_index', SBool.of(db.table is T and s is not None and (s.view is None or s.view is T) and not s.dirty)
    yield 'nothing_touched_during_the_lookup', SBool.of(vc.world.ent is G(vc, '$ent0') and vc.world.idata is G(vc, '$idata0'))
    yield 'listing_untouched', L.loose_objects.s == L0_of(vc)


def chunks_inv(vc, L):
    T, R, done = G(vc, '$T'), found(L), L.done
    vc.ghost['$found_at_chunk'] = R
    yield 'found_exactly_the_indexed_keys_of_the_chunks_done', Forall(lambda k: R.has(k) == b_and(done.has(k), T.has(k)))
    yield from lookup_frame(vc, L)


def rows_inv(vc, L):
    R, K0, done = found(L), G(vc, '$found_at_chunk'), L.done
    yield 'found_so_far', Forall(lambda k: R.has(k) == b_or(K0.has(k), done.has(k)))
    yield from lookup_frame(vc, L)


def scan_inv(vc, L):
    T, R, done, L0 = G(vc, '$T'), found(L), L.done, L0_of(vc)
    yield 'found_exactly_the_listed_indexed_keys_classified', Forall(lambda k: R.has(k) == b_and(done.has(k), T.has(k), L0.has(k)))
    yield from lookup_frame(vc, L)


def I_fresh_bool(vc):
    return vc.fresh_bool('found_distinct')


def havoc_found(vc, L):
    L.existing_packed_hashkeys = MList(None, n=SInt.fresh('nfound'), elems=SSet.fresh('found'), distinct=I_fresh_bool(vc))


def remove_inv(vc, L):
    c = L.self
    live = vc.world
    w = FS.snap(live)
    done, ent0 = L.done, G(vc, '$ent0')
    yield 'index_untouched', SBool.of(SQL.db_of_world(live, vc).table is G(vc, '$T'))
    yield 'visited_loose_files_removed', Forall(lambda k: implies(done.has(k), w.inode_at(loose_pid(c, k)) == 0))
    yield 'other_loose_files_untouched', Forall(lambda k: implies(b_not(done.has(k)),
                                                                  w.inode_at(loose_pid(c, k)) == SInt(z3.Select(ent0, loose_pid(c, k).t))))
    yield 'packs_and_locks_untouched', Forall(lambda i: b_and(w.inode_at(pack_pid(c, i)) == SInt(z3.Select(ent0, pack_pid(c, i).t)),
                                                              w.inode_at(lock_pid(c, i)) == SInt(z3.Select(ent0, lock_pid(c, i).t))), sort='pack')
    yield 'no_file_content_changed', SBool(w.idata == G(vc, '$idata0'))


def havoc_remove(vc, L):
    w = vc.world
    w.ent = z3.Const(EM.fresh_name('W.ent'), w.ent.sort())


def no_dup_inv(vc, L):
    yield 'nothing_touched_by_the_duplicates_scan', SBool.of(vc.world.ent is G(vc, '$ent0') and vc.world.idata is G(vc, '$idata0'))


class NoDuplicates:
    """`duplicates_mapping = defaultdict(list)` of a container without duplicate files: stays empty."""

    def sym_call(self, I, args, kwargs):
        return self

    def concrete_items(self):
        return []

    def sym_getitem(self, I, k):
        raise Unsupported('duplicates_mapping[...] (duplicate files are outside this contract)')


class CleanStorage(CUnit):
    fn = 'container:Container.clean_storage'
    mode = 'no_duplicates'
    props = ('C16', 'C02', 'C05', 'C08')
    allowed_exc = ()
    timeout_ms = 8000
    parallel = True
    inline = ACCESSORS + ('container:Container.close', 'container:Container._vacuum')
    loops = {
        0: Loop(0, no_dup_inv),
        5: Loop(5, chunks_inv, havoc=havoc_found),
        6: Loop(6, rows_inv, havoc=havoc_found),
        7: Loop(7, scan_inv, havoc=havoc_found),
        8: Loop(8, remove_inv, havoc=havoc_remove),
    }

    def configure(self, vc, I):
        vc.defaultdict_factory = NoDuplicates()

    def make(self, vc, I):
        w = mk_world(vc)
        which = vc.choose(3, label='session_before_the_call')
        c = mk_container(vc, I, w, session='open' if which else 'none', hash_types=('sha256',))
        if which == 2:
            c.f['_operation_session'].view = SQL.Table.fresh('stale')
        cls = I.prog.classes['container:Container']
        cls.attrs['_IN_SQL_MAX_LENGTH'] = SInt.fresh('IN_SQL_MAX')
        cls.attrs['_MAX_CHUNK_ITERATE_LENGTH'] = SInt.fresh('MAX_CHUNK_ITERATE')
        vc.assume(b_and(SInt.of(cls.attrs['_IN_SQL_MAX_LENGTH']) >= 1, SInt.of(cls.attrs['_MAX_CHUNK_ITERATE_LENGTH']) >= 0))
        return NS(self=c, vacuum=False)

    def pre(self, vc, a):
        w, c = vc.world, a.self
        yield from CWL.layout_inv(vc, w, c)
        fw = FS.snap(w)
        dup = c.f['$dirs'].duplicates
        yield 'no_duplicate_files', Forall(lambda n: b_and(fw.inode_at(FS.PathVal(dup.base, dup.parts + (n,)).pid()) == 0,
                                                            b_not(fw.is_dir(FS.PathVal(dup.base, dup.parts + (n,)).pid()))))

    def snapshot(self, vc, a):
        w, c = vc.world, a.self
        T = SQL.db_of_world(w, vc).table
        vc.ghost['$T'] = T
        vc.ghost['$ent0'], vc.ghost['$idata0'] = w.ent, w.idata
        vc.ghost['$container'] = c
        vc.env_hook = cs_hook
        return NS(T=T, ent=w.ent, idata=w.idata, files=[f.num for f in w.open_fds if f.what != 'sqlite'])

    def post(self, vc, a, o, ret):
        w, c = FS.snap(vc.world), a.self
        live = vc.world
        L0 = L0_of(vc)
        T = o.T
        was = lambda k: SInt(z3.Select(o.ent, loose_pid(c, k).t))
        if vc.profile.get('os.name', 'posix') != 'nt':
            yield 'every_listed_loose_file_of_an_indexed_key_is_removed', Forall(
                lambda k: implies(b_and(L0.has(k), T.has(k)), w.inode_at(loose_pid(c, k)) == 0))
        yield 'no_loose_file_of_an_unindexed_key_is_removed', Forall(
            lambda k: implies(b_not(T.has(k)), w.inode_at(loose_pid(c, k)) == was(k)))
        yield 'packs_untouched', Forall(lambda i: w.inode_at(pack_pid(c, i)) == SInt(z3.Select(o.ent, pack_pid(c, i).t)), sort='pack')
        yield 'index_and_file_contents_untouched', b_and(SBool.of(SQL.db_of_world(live, vc).table is o.T), SBool(w.idata == o.idata))
        yield 'no_descriptor_leaked', SBool.of([f.num for f in live.open_fds if f.what != 'sqlite'] == o.files)


def cs_hook(I, tag, payload):
    vc = I.vc
    c = vc.ghost.get('$container')
    db = SQL.db_of_world(vc.world, vc)
    if tag == 'sql_select':
        s = payload['session']
        vc.check('select:index_read_from_a_snapshot_taken_after_the_loose_listing', SBool.of(s.view is db.table))
    elif tag == 'pre_remove':
        p = payload['path'].pid()
        T = db.table
        vc.check('unlink:only_loose_files_whose_key_is_in_the_committed_index',
                 Forall(lambda k: implies(loose_pid(c, k) == p, T.has(k))))


UNITS = HP.HELPER_SUMMARIES + [CleanStorage()]
