"""Summaries of small helpers used by the container-level functions (callee mode), and the contracts of
should_compress / estimate_compression.
"""
from .common import *
from .cmodel import *
from pyvc.values import Unsupported
from pyvc.engine import EnumVal, GenObj


# ----------------------------------------------------------------------------- chunk_iterator  (E-ITERTOOLS)
class Chunk:
    """One chunk: a non-empty tuple of at most `size` distinct elements of the source."""

    def __init__(self, elems):
        self.elems = elems      # SSet

    def sym_contains(self, I, x):
        return self.elems.has(x)

    def sym_toset(self, I):
        return MSet(self.elems)


class ChunkIterable:
    def __init__(self, source, size):
        self.source, self.size = source, size

    def iter_model(self, I):
        return _ChunkIter(self)


class _ChunkIter:
    """ghost done = union of the chunks delivered so far; chunks partition the source."""

    def __init__(self, ci):
        self.ci = ci

    def start(self, vc):
        return {'done': SSet.empty(), 'source': self.ci.source}

    def havoc(self, vc, g):
        d = SSet.fresh('chunked')
        vc.assume(d.subset(self.ci.source))
        return {'done': d, 'source': self.ci.source}

    def step(self, vc, g):
        ch = SSet.fresh('chunk')
        src, done = self.ci.source, g['done']
        vc.assume(Forall(lambda k: implies(ch.has(k), b_and(src.has(k), b_not(done.has(k))))))
        x = vc.fresh_key('inchunk')
        vc.assume(ch.has(x))                       # chunks are never empty
        return Chunk(ch), {'done': done.union(ch), 'source': src, 'chunk': ch}

    def finish(self, vc, g):
        vc.assume(g['done'] == self.ci.source)


class ChunkIteratorSummary(Unit):
    """utils.chunk_iterator = iter(lambda: tuple(itertools.islice(it, size)), ()) : library composition, assumed
    (E-ITERTOOLS): the chunks are non-empty, pairwise disjoint, of at most `size` elements, and cover the source."""
    fn = 'utils:chunk_iterator'
    props = ('C16',)
    trusted = True
    note = 'assumed (itertools.islice composition); exercised by the bounded C16 helper enumeration'

    def havoc(self, vc, I, a):
        src = a.iterator
        if isinstance(src, MSet):
            s = src.s
        elif isinstance(src, MList) and src.items is None and 'elems' in src.g:
            s = src.g['elems']
        elif isinstance(src, (MList, list, tuple)):
            s = EM._as_sset(I, src)
        else:
            raise Unsupported(f'chunk_iterator over {src!r}')
        vc.check(f'{vc.unit}:pre[utils:chunk_iterator]:size_positive', SInt.of(a.size) > 0)
        return ChunkIterable(s, a.size)


# ----------------------------------------------------------------------------- detect_where_sorted (callee summary)
class KeyedSource:
    """A sorted-unique source of detect_where_sorted: set of keys + item function."""

    def __init__(self, keys, item_of):
        self.keys, self.item_of = keys, item_of


def as_keyed_source(I, x, key_fn=None):
    from pyvc import sqlmodel as SQL
    if isinstance(x, SQL.Result):
        q = x.q
        if q.order is None or q.order.name != 'hashkey' or q.lim is not None or q.conds:
            raise Unsupported('detect_where_sorted over a result that is not a full scan ordered by hashkey')
        # which column does left_key select?  apply it to a probe row of column names
        if key_fn is None:
            raise Unsupported('a row source needs a left_key')
        probe = SQL.Row([c.name for c in q.cols])
        sel = I.call(key_fn, [probe], {})
        if sel != 'hashkey':
            # comparing rows by another column than the one they are ordered by: not the sorted-merge situation
            raise Unsupported(f'left_key selects column {sel!r} of a result ordered by hashkey')
        T = x.T
        return KeyedSource(T.present, lambda k: x.row_of(I, k))
    if isinstance(x, EM.SortedKeys):
        return KeyedSource(x.s, lambda k: k)
    if isinstance(x, MergedKeys):
        return KeyedSource(x.s, lambda k: k)
    if isinstance(x, MList) and x.items is None and x.g.get('sorted_unique') and 'elems' in x.g:
        return KeyedSource(x.g['elems'], lambda k: k)
    raise Unsupported(f'detect_where_sorted over {x!r}')


class MergedKeys:
    """Result of merge_sorted / yield_first_element: sorted unique keys (a set, as far as the callers can tell)."""

    def __init__(self, s):
        self.s = s

    def iter_model(self, I):
        return EM.SetIterModel(self.s)


class WhereIterable:
    def __init__(self, I, left, right, loc):
        self.left, self.right, self.loc = left, right, loc

    def iter_model(self, I):
        return _WhereIter(I, self)


class _WhereIter:
    def __init__(self, I, wi):
        self.I, self.wi = I, wi

    def start(self, vc):
        return {'done': SSet.empty(), 'left': self.wi.left.keys, 'right': self.wi.right.keys}

    def havoc(self, vc, g):
        d = SSet.fresh('classified')
        vc.assume(d.subset(self.wi.left.keys.union(self.wi.right.keys)))
        return dict(g, done=d)

    def step(self, vc, g):
        wi = self.wi
        k = vc.fresh_key('merged')
        inl, inr = wi.left.keys.has(k), wi.right.keys.has(k)
        vc.assume(b_or(inl, inr))
        vc.assume(b_not(g['done'].has(k)))
        which = vc.decide([b_and(inl, inr).t, b_and(inl, b_not(inr)).t, b_and(b_not(inl), inr).t],
                          ['where:BOTH', 'where:LEFTONLY', 'where:RIGHTONLY'])
        loc = wi.loc[('BOTH', 'LEFTONLY', 'RIGHTONLY')[which]]
        item = wi.left.item_of(k) if which in (0, 1) else wi.right.item_of(k)
        return (item, loc), dict(g, done=g['done'].add(k), key=k)

    def finish(self, vc, g):
        vc.assume(g['done'] == self.wi.left.keys.union(self.wi.right.keys))


class DetectWhereSortedSummary(Unit):
    """Callee summary of utils.detect_where_sorted for sorted unique sources: every element of the union is
    classified exactly once and correctly. The function's own body is proved against this contract by contracts/csorted.py
    (unit utils:detect_where_sorted@body); what remains assumed is only the restatement over key sets used here."""
    fn = 'utils:detect_where_sorted'
    props = ('C16',)
    trusted = True
    note = ('callee summary over key sets; the body is proved for strictly increasing sequences of any length by '
            'utils:detect_where_sorted@body (contracts/csorted.py) and checked exhaustively by the bounded C16 helper enumeration')

    def havoc(self, vc, I, a):
        left = as_keyed_source(I, a.left_iterator, a.left_key)
        right = as_keyed_source(I, a.right_iterator, None)
        loc = I.prog.classes['utils:Location'].attrs
        return WhereIterable(I, left, right, loc)


class MergeSortedSummary(Unit):
    fn = 'utils:merge_sorted'
    props = ('C16',)
    trusted = True
    note = 'callee summary over key sets (the sorted union of two sorted unique sources); the body is proved by utils:merge_sorted@body + utils:detect_where_sorted@body (contracts/csorted.py)'

    def havoc(self, vc, I, a):
        l, r = as_keyed_source(I, a.iterator1), as_keyed_source(I, a.iterator2)
        return MergedKeys(l.keys.union(r.keys))


class YieldFirstElementSummary(Unit):
    fn = 'utils:yield_first_element'
    props = ('C16',)
    trusted = True
    note = 'callee summary over key sets (first column of a full scan ordered by hashkey); the body is proved by utils:yield_first_element@body (contracts/csorted.py)'

    def havoc(self, vc, I, a):
        from pyvc import sqlmodel as SQL
        x = a.iterator
        if isinstance(x, SQL.Result) and x.q.cols and x.q.cols[0].name == 'hashkey' and x.q.order is not None \
                and x.q.order.name == 'hashkey' and not x.q.conds and x.q.lim is None:
            return MergedKeys(x.T.present)
        raise Unsupported('yield_first_element over something else than a hashkey scan')


# ----------------------------------------------------------------------------- _list_loose (trusted summary)
def valid_hashkey(k):
    """_is_valid_hashkey: only lower-case hexadecimal characters (uninterpreted predicate; E-HASH: digests are hex)."""
    import z3
    return SBool(z3.Function('is_hex', z3.StringSort(), z3.BoolSort())(SStr.of(k).t))


class ListLooseSummary(Unit):
    """Container._list_loose: yields the keys k (hex strings) whose loose path loose/<k[:n]>/<k[n:]> exists, each once.
    ASSUMED here (two nested os.listdir loops with string concatenation; the engine does not decide the string
    equation `first + second == k`); exercised by the bounded histories."""
    fn = 'container:Container._list_loose'
    props = ('C02', 'C16')
    trusted = True
    modules = MODULES
    note = 'assumed: lists exactly the hex-named loose files (string concatenation of directory levels not decided by the engine)'

    def havoc(self, vc, I, a):
        c = a.self
        w = vc.world
        ent, dirs = w.ent, w.dirs
        L = SSet.fresh('listed_loose')
        import z3
        vc.assume(Forall(lambda k: L.has(k) == b_and(SInt(z3.Select(ent, loose_pid(c, k).t)) != 0, valid_hashkey(k))))
        EM.effect(I, 'listdir', what='loose')
        return EM.OneShot(L)


HELPER_SUMMARIES = [ChunkIteratorSummary(), DetectWhereSortedSummary(), MergeSortedSummary(), YieldFirstElementSummary(),
                    ListLooseSummary()]


# ----------------------------------------------------------------------------- should_compress / estimate_compression
class EstimateCompression(Unit):
    """C10 'stream position restored': the AUTO heuristic samples the stream and puts the cursor back."""
    fn = 'utils:estimate_compression'
    props = ('C10',)
    inline = ('utils:get_compressobj_instance', 'utils:_get_compression_algorithm_info')
    allowed_exc = ()

    def make(self, vc, I):
        s = EM.AbsStream(SBytes.fresh('content'), SInt.fresh('pos0'), short_reads=True, name='stream')
        return NS(stream=s, size=SInt.fresh('size'))

    def pre(self, vc, a):
        s = a.stream
        yield 'cursor_in_stream', b_and(s.pos >= 0, s.pos <= s.content.length())
        yield 'size_is_stream_length', SInt.of(a.size) == s.content.length()

    def snapshot(self, vc, a):
        vc.ghost['$pos0'] = a.stream.pos
        return NS(pos=a.stream.pos, content=a.stream.content)

    def post(self, vc, a, o, ret):
        yield 'stream_position_restored', a.stream.pos == o.pos
        yield 'stream_content_untouched', a.stream.content == o.content

    def havoc(self, vc, I, a):
        return EM.RealVal(SInt.fresh('num'), SInt.fresh('den'))


def _loop_estimate(vc, L):
    s = L.stream
    yield 'cursor_in_stream', b_and(s.pos >= 0, s.pos <= s.content.length())
    yield 'size_is_stream_length', SInt.of(L.size) == s.content.length()
    yield 'sample_length_nonneg', SInt.of(L.total_length) >= 0
    yield 'nothing_sampled_only_before_the_first_read', implies(SInt.of(L.total_length) == 0, b_and(s.pos == 0, SInt.of(L.size) > 0))
    yield 'initial_position_remembered', SInt.of(L.initial_pos) == L.__getattr__('$pos0')


def _havoc_estimate(vc, L):
    L.stream.pos = SInt.fresh('spos')
    L.sampled_data = MList(None, joined=SBytes.fresh('sampled'), n=SInt.fresh('nsamples'))


EstimateCompression.loops = {0: Loop(0, _loop_estimate, havoc=_havoc_estimate, fingerprint='total_length < max_sampled_data_size')}


class ShouldCompress(Unit):
    fn = 'utils:should_compress'
    props = ('C10',)
    allowed_exc = ('NotImplementedError',)

    def make(self, vc, I):
        cm = I.prog.classes['utils:CompressMode'].attrs
        names = ('NO', 'YES', 'KEEP', 'AUTO')
        mode = cm[names[vc.choose(4, label='compress_mode')]]
        s = EM.AbsStream(SBytes.fresh('content'), SInt.fresh('pos0'), short_reads=True, name='source_stream')
        return NS(source_stream=s, compress_mode=mode, source_compressed=vc.fresh_bool('source_compressed'),
                  source_length=SInt.fresh('source_length'), source_size=SInt.fresh('source_size'))

    def pre(self, vc, a):
        s = a.source_stream
        if isinstance(s, EM.AbsStream):
            yield 'cursor_in_stream', b_and(s.pos >= 0, s.pos <= s.content.length())
            yield 'size_is_uncompressed_stream_length', implies(b_not(SBool.of(a.source_compressed)),
                                                                 SInt.of(a.source_size) == s.content.length())
        yield 'sizes_nonneg', b_and(SInt.of(a.source_size) >= 0, SInt.of(a.source_length) >= 0)

    def snapshot(self, vc, a):
        s = a.source_stream
        return NS(pos=stream_pos(s), mode=a.compress_mode.name)

    def post(self, vc, a, o, ret):
        r = SBool.of(ret)
        if o.mode == 'YES':
            yield 'YES_always_compresses', r
        if o.mode == 'NO':
            yield 'NO_never_compresses', b_not(r)
        if o.mode == 'KEEP':
            yield 'KEEP_keeps_the_current_form', r == SBool.of(a.source_compressed)
        yield 'stream_position_untouched', stream_pos(a.source_stream) == o.pos

    def exc(self, vc, a, o, e):
        yield 'only_for_unknown_modes', SBool.of(o.mode not in ('NO', 'YES', 'KEEP', 'AUTO'))

    def havoc(self, vc, I, a):
        m = a.compress_mode
        if not isinstance(m, EnumVal):
            raise Unsupported('should_compress with a non-enum mode')
        if m.name == 'YES':
            return True
        if m.name == 'NO':
            return False
        if m.name == 'KEEP':
            return a.source_compressed
        return vc.fresh_bool('auto_decision')


def stream_pos(s):
    if isinstance(s, EM.AbsStream):
        return s.pos
    if isinstance(s, EM.FileObj):
        return s.kpos
    if isinstance(s, PyObj) and '_pos' in s.f:
        return SInt.of(s.f['_pos'])
    raise Unsupported(f'position of {s!r}')


UNITS = HELPER_SUMMARIES + [EstimateCompression(), ShouldCompress()]
