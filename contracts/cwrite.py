"""Contracts for the write side of disk_objectstore/container.py:
_write_data_to_packfile, _get_pack_id_to_write_to, lock_pack, add_streamed_object, add_object.
"""
from .common import *
from .cmodel import *
from .sync import mk_write_handle
from . import writers as WR

DEPENDS = ['sync', 'writers']


def read_view(h):
    """(content, pos) of a readable binary stream handed to a write path: a caller-supplied abstract stream or a raw
    file opened 'rb'."""
    if isinstance(h, EM.AbsStream):
        def sp(p):
            h.pos = SInt.of(p)
        return NS(content=h.content, pos=h.pos, set_pos=sp)
    if isinstance(h, EM.FileObj) and 'r' in h.mode:
        def sp(p):
            h.kpos = SInt.of(p)
        return NS(content=h.content(), pos=h.kpos, set_pos=sp)
    from pyvc.values import Unsupported
    raise Unsupported(f'read handle {h!r}')


# ----------------------------------------------------------------------------- _write_data_to_packfile
def mk_pack_handle(vc, w, path=None):
    """An open append-mode pack handle: arbitrary flushed content, arbitrary pending buffer, cursor at EOF."""
    ino = w.new_inode(vc, SBytes.fresh('packflushed'))
    fh = EM.FileObj(w, ino, 'ab', path=path or FS.PathVal(SInt.fresh('packsdir'), (SStr.fresh('packname'),)), at_end=True)
    fh.buf = SBytes.fresh('packpending')
    return fh


def _wd_written(L):
    """What the loop has appended so far, as a function of the consumed prefix."""
    rest0 = L.__getattr__('$rest0')
    c = L.__getattr__('$consumed')
    if L.compress is True:
        return SBytes.of(L.compressobj.out)
    return rest0.slice(0, c)


def _loop_write_data(vc, L):
    rh, ph = L.read_handle, L.pack_handle
    rest0, pos0, log0 = L.__getattr__('$rest0'), L.__getattr__('$pos0'), L.__getattr__('$logical0')
    c = rh.pos - pos0
    yield 'consumed_in_range', b_and(c >= 0, c <= rest0.length())
    yield 'count_is_consumed', SInt.of(L.count_read_bytes) == c
    if L.hash_type is not None:
        yield 'hashed_the_consumed_prefix', SBytes.of(L.hasher.fed) == rest0.slice(0, c)
    if L.compress is True:
        yield 'compressor_fed_the_consumed_prefix', SBytes.of(L.compressobj.fed) == rest0.slice(0, c)
        yield 'pack_holds_compressor_output', ph.logical() == log0 + SBytes.of(L.compressobj.out)
        yield 'compressor_not_flushed', SBool.of(not L.compressobj.flushed)
    else:
        yield 'pack_holds_the_consumed_prefix', ph.logical() == log0 + rest0.slice(0, c)
    yield 'pack_cursor_at_end', ph.kpos == ph.content().length()
    yield 'pack_still_open', SBool.of(not ph.closed)


def _havoc_write_data(vc, L):
    rh, ph = L.read_handle, L.pack_handle
    rest0, pos0, log0 = vc.ghost['$rest0'], vc.ghost['$pos0'], vc.ghost['$logical0']
    c = SInt.fresh('consumed')
    vc.assume(b_and(c >= 0, c <= rest0.length()))
    rh.pos = pos0 + c
    if L.hash_type is not None:
        L.hasher.fed = rest0.slice(0, c)
    if L.compress is True:
        L.compressobj.fed = rest0.slice(0, c)
        L.compressobj.out = SBytes.fresh('zsofar')
        written = SBytes.of(L.compressobj.out)
    else:
        written = rest0.slice(0, c)
    split_pack_handle(vc, ph, vc.ghost['$content0'], vc.ghost['$buf0'], written)


def split_pack_handle(vc, ph, content0, buf0, written):
    """Put an append-mode handle into an arbitrary state whose logical content is content0 ++ buf0 ++ written: the
    boundary between the kernel-visible part and the user-space buffer lies inside the old buffer or inside the newly
    written part (flushed content only grows). Case-split so that every term stays an extraction of a variable."""
    empty_buf0 = isinstance(buf0, bytes) and buf0 == b''
    content0, buf0, written = SBytes.of(content0), SBytes.of(buf0), SBytes.of(written)
    j = SInt.fresh('boundary')
    if not empty_buf0 and vc.choose(2, label='flushed_up_to:old_buffer|new_data') == 0:
        vc.assume(b_and(j >= 0, j <= buf0.length()))
        ph.world.set_data(ph.ino, content0 + buf0.slice(0, j))
        ph.buf = buf0.slice(j, None) + written
    else:
        vc.assume(b_and(j >= 0, j <= written.length()))
        ph.world.set_data(ph.ino, (content0 if empty_buf0 else content0 + buf0) + written.slice(0, j))
        ph.buf = written.slice(j, None)
    ph.kpos = ph.content().length()


class WriteDataToPackfile(CUnit):
    fn = 'container:Container._write_data_to_packfile'
    props = ('C01', 'C03', 'C10', 'C13')
    loops = {0: Loop(0, _loop_write_data, havoc=_havoc_write_data, fingerprint='True')}
    allowed_exc = ()

    def make(self, vc, I):
        w = mk_world(vc)
        c = mk_container(vc, I, w, hash_types=('sha256',))
        ph = mk_pack_handle(vc, w)
        rh = EM.AbsStream(SBytes.fresh('objcontent'), SInt.fresh('rpos'), short_reads=True, name='read_handle')
        vc.assume(b_and(rh.pos >= 0, rh.pos <= rh.content.length()))
        compress = vc.choose(2, label='compress') == 1
        ht = (None, 'sha256', 'sha1')[vc.choose(3, label='hash_type_arg')]
        return NS(self=c, pack_handle=ph, read_handle=rh, compress=compress, hash_type=ht)

    def pre(self, vc, a):
        ph = a.pack_handle
        yield 'append_mode_binary_handle', SBool.of(isinstance(ph, EM.FileObj) and ph.mode == 'ab' and not ph.closed)
        yield 'pack_cursor_at_end', ph.kpos == ph.content().length()
        rv = read_view(a.read_handle)
        yield 'read_cursor_in_range', b_and(rv.pos >= 0, rv.pos <= rv.content.length())

    def snapshot(self, vc, a):
        rh, ph = a.read_handle, a.pack_handle
        rv = read_view(rh)
        o = NS(rest=rv.content.slice(rv.pos, None), pos=rv.pos, logical=ph.logical(), content=ph.content(),
               buf=SBytes.of(ph.buf), tell=ph.kpos + slen(ph.buf), rv=rv)
        vc.ghost['$rest0'], vc.ghost['$pos0'], vc.ghost['$logical0'] = o.rest, o.pos, o.logical
        vc.ghost['$content0'], vc.ghost['$buf0'] = o.content, SBytes.of(ph.buf)
        return o

    def post(self, vc, a, o, ret):
        ph = a.pack_handle
        n, hk = ret
        appended = ph.logical().slice(o.logical.length(), None)
        yield 'returns_number_of_bytes_read', SInt.of(n) == o.rest.length()
        if a.hash_type is None:
            yield 'no_digest_requested', SBool.of(hk is None)
        else:
            yield 'returns_digest_of_exactly_the_bytes_read', SStr.of(hk) == EM.H(a.hash_type, o.rest) if hk is not None else SBool.of(False)
        yield 'pack_only_grows', ph.logical().slice(0, o.logical.length()) == o.logical
        yield 'pack_cursor_at_end', ph.kpos == ph.content().length()
        yield 'flushed_part_only_grows', b_and(ph.content().length() >= o.content.length(),
                                               ph.content().slice(0, o.content.length()) == o.content)
        if a.compress:
            yield 'appended_is_a_complete_zlib_stream_of_the_object', b_and(EM.zvalid(appended), EM.dec(True, appended) == o.rest)
        else:
            yield 'appended_is_exactly_the_object', appended == o.rest
        rv = read_view(a.read_handle)
        yield 'source_fully_consumed', rv.pos == rv.content.length()

    # callee mode: the appended bytes are *defined* as the specified encoding of the source's rest (nothing left to assume)
    def post_callee(self, vc, a, o, ret):
        return ()

    def havoc(self, vc, I, a):
        o, ph, rh = a.o, a.pack_handle, a.read_handle
        if a.compress is True:
            enc = SBytes.fresh('zstream')
            vc.assume(b_and(EM.zvalid(enc), EM.dec(True, enc) == o.rest, enc.length() > 0))
        elif a.compress is False:
            enc = o.rest
        else:
            enc = SBytes.fresh('stored')
            cflag = SBool.of(a.compress)
            vc.assume(implies(cflag, b_and(EM.zvalid(enc), EM.dec(True, enc) == o.rest, enc.length() > 0)))
            vc.assume(implies(b_not(cflag), enc == o.rest))
        split_pack_handle(vc, ph, o.content, o.buf, enc)
        o.rv.set_pos(o.rv.content.length())
        a.enc = enc
        EM.effect(I, 'file_write', file=ph)
        hk = None if a.hash_type is None else EM.H(conc(a.hash_type), o.rest)
        return (o.rest.length(), hk)


UNITS = CM_UNITS + [WriteDataToPackfile()]


# ----------------------------------------------------------------------------- _get_pack_id_to_write_to
def pack_full(vc, w, c, i, known=None):
    """Pack i exists and its size (from known_sizes when given for it, else from the file) has reached the target."""
    pid = pack_pid(c, i)
    ino = w.inode_at(pid)
    size = w.data(ino).length()
    if known is not None:
        kid, ksize = known
        size = ite(SInt.of(i) == kid, ksize, size)
    return b_and(b_or(ino != 0, w.is_dir(pid)), size >= c.f['$T'])


def _loop_pack_id(vc, L):
    c = L.self
    w = FS.snap(vc.world)
    start = L.__getattr__('$start')
    known = L.__getattr__('$known')
    pid = SInt.of(L.pack_id)
    yield 'walks_upwards_from_the_cached_id', pid >= start
    yield 'every_skipped_pack_is_full', Forall(lambda i: implies(b_and(i >= start, i < pid), pack_full(vc, w, c, i, known)), sort='pack')


class GetPackIdToWriteTo(CUnit):
    fn = 'container:Container._get_pack_id_to_write_to'
    props = ('C13',)
    loops = {0: Loop(0, _loop_pack_id, fingerprint='True')}
    allowed_exc = ()

    def make(self, vc, I):
        w = mk_world(vc)
        c = mk_container(vc, I, w, hash_types=('sha256',))
        which = vc.choose(2, label='cached_pack_id')
        if which == 1:
            c.f['_current_pack_id'] = SInt.fresh('cached')
        ks = None
        a = NS(self=c, known_sizes=None)
        if vc.choose(2, label='known_sizes') == 1:
            kid, ksize = SInt.fresh('known_id'), SInt.fresh('known_size')
            vc.assume(ksize >= 0)
            a.known_sizes = MDict([(kid, ksize)])
            a.known = (kid, ksize)
        return a

    def pre(self, vc, a):
        c = a.self
        cur = c.f['_current_pack_id']
        if cur is not None:
            yield 'cached_id_nonneg', SInt.of(cur) >= 0
        w = FS.snap(vc.world)
        # layout: pack paths are files, never directories
        yield 'pack_paths_are_files', Forall(lambda i: b_not(w.is_dir(pack_pid(c, i))), sort='pack')

    def snapshot(self, vc, a):
        c = a.self
        cur = c.f['_current_pack_id']
        start = SInt.of(0) if cur is None else SInt.of(cur)
        known = None
        if a.known_sizes is not None:
            known = a.known_sizes.pairs[0]
        vc.ghost['$start'], vc.ghost['$known'] = start, known
        w = vc.world
        return NS(start=start, known=known, ent=w.ent, idata=w.idata)

    def post(self, vc, a, o, ret):
        c = a.self
        w = FS.snap(vc.world)
        r = SInt.of(ret)
        yield 'not_below_the_cached_id', r >= o.start
        yield 'chosen_pack_is_absent_or_below_target', b_not(pack_full(vc, w, c, r, o.known))
        yield 'every_skipped_pack_is_full', Forall(lambda i: implies(b_and(i >= o.start, i < r), pack_full(vc, w, c, i, o.known)), sort='pack')
        yield 'result_is_cached', SInt.of(c.f['_current_pack_id']) == r
        yield 'world_untouched', b_and(SBool(vc.world.ent == o.ent), SBool(vc.world.idata == o.idata))

    def havoc(self, vc, I, a):
        c = a.self
        r = vc.ikey(SInt.fresh('pack_id'), 'pack')
        c.f['_current_pack_id'] = r
        return r


# ----------------------------------------------------------------------------- lock_pack
class LockPack(CUnit):
    fn = 'container:Container.lock_pack'
    props = ('C13', 'C17', 'C18', 'C05')
    allowed_exc = ('RuntimeError', 'FileExistsError')

    def make(self, vc, I):
        w = mk_world(vc)
        c = mk_container(vc, I, w, hash_types=('sha256',))
        allow = vc.choose(2, label='allow_repack_pack') == 1
        i = SInt.of(-1) if allow and vc.choose(2, label='repack_id') == 1 else SInt.fresh('pack_int_id')
        return NS(self=c, pack_id=EM.IntStr(i), allow_repack_pack=allow, i=i)

    def pre(self, vc, a):
        w = vc.world
        c = a.self
        yield 'valid_pack_id', b_or(a.i >= 0, SBool.of(a.allow_repack_pack) & (a.i == -1))
        yield 'pack_path_is_a_file', b_and(b_not(w.is_dir(pack_pid(c, a.i))), b_not(w.is_dir(lock_pid(c, a.i))))

    def snapshot(self, vc, a):
        w = vc.world
        c = a.self
        ino = w.inode_at(pack_pid(c, a.i))
        return NS(fds=[f.num for f in w.open_fds], lock=w.inode_at(lock_pid(c, a.i)), ino=ino, data=w.data(ino),
                  lockpid=lock_pid(c, a.i), packpid=pack_pid(c, a.i))

    def enter_post(self, vc, a, o, fh):
        w = vc.world
        yield 'lock_was_free', o.lock == 0
        yield 'lock_file_created', w.inode_at(o.lockpid) != 0
        yield 'append_mode_binary_handle', SBool.of(isinstance(fh, EM.FileObj) and fh.mode == 'ab' and not fh.closed)
        yield 'handle_is_the_pack_file', w.inode_at(o.packpid) == fh.ino
        yield 'existing_pack_content_kept', implies(o.ino != 0, b_and(fh.ino == o.ino, fh.content() == o.data))
        yield 'new_pack_starts_empty', implies(o.ino == 0, fh.content().length() == 0)
        yield 'cursor_at_end_of_file', b_and(fh.kpos == fh.content().length(), SBytes.of(fh.buf).length() == 0)

    def during(self, vc, I, a, o, fh):
        # the caller appends arbitrary bytes: leave them partly in the user-space buffer
        fh.m_write(I, SBytes.fresh('body_writes'))
        a.logical = fh.logical()

    def post(self, vc, a, o, ret):
        w = vc.world
        fh = a.entered
        yield 'pack_handle_closed', SBool.of(fh.closed)
        yield 'everything_written_reaches_the_file', fh.content() == a.logical
        yield 'lock_released', w.inode_at(o.lockpid) == 0
        yield 'no_descriptor_leaked', SBool.of([f.num for f in w.open_fds] == o.fds)

    def exc(self, vc, a, o, e):
        w = vc.world
        if getattr(e, 'from_body', False):
            fh = a.entered
            yield 'pack_handle_closed', SBool.of(fh.closed)
            yield 'everything_written_reaches_the_file', fh.content() == a.logical
            yield 'lock_released', w.inode_at(o.lockpid) == 0
        else:
            yield 'refused_only_when_locked', b_and(SBool.of(e.cls.name == 'FileExistsError'), o.lock != 0)
        yield 'no_descriptor_leaked', SBool.of([f.num for f in w.open_fds] == o.fds)


class LockCm:
    """Callee-mode summary of lock_pack, exactly its verified contract: enter creates the lock file exclusively and
    opens the pack in append mode at its end; exit (normal or exceptional) closes the pack (flushing it) and removes
    the lock file."""

    def __init__(self, c, i, allow):
        self.c, self.i, self.allow = c, i, allow
        self.fh = None

    def sym_enter(self, I):
        vc = I.vc
        w = FS.fs(I)
        c, i = self.c, self.i
        lp = lock_pid(c, i)
        if vc.branch(b_or(w.inode_at(lp) != 0, w.is_dir(lp)), label='lock_pack:locked'):
            EM.raise_py('FileExistsError', origin='lock_pack')
        if EM.fault(I, 'lock_pack'):
            EM.raise_py('OSError', origin='lock_pack')
        lock_ino = w.new_inode(vc, b'')
        w.set_entry(lp, lock_ino)
        EM.effect(I, 'lock_acquired', pack=i)
        pp = pack_path(c, i)
        ino = w.inode_at(pp.pid())
        if vc.branch(ino == 0, label='lock_pack:new_pack'):
            ino = w.new_inode(vc, b'')
            w.set_entry(pp.pid(), ino)
            from .cpack import kind, PACK, packno
            vc.assume(b_and(kind(ino) == PACK, packno(ino) == i))     # ghost labelling of the fresh inode: the file of pack i
            EM.effect(I, 'create', path=pp, ino=ino, file=None)
        self.fh = EM.FileObj(w, ino, 'ab', path=pp, at_end=True)
        return self.fh

    def sym_exit(self, I, exc):
        w = I.vc.world
        try:
            self.fh.m_close(I)
        finally:
            w.set_entry(lock_pid(self.c, self.i), 0)
            EM.effect(I, 'lock_released', pack=self.i)
        return False


def _lockpack_bind(self, I, f, args, kwargs):
    a = Unit.bind_actual(self, I, f, args, kwargs)
    p = a.pack_id
    if isinstance(p, EM.IntStr):
        a.i = p.n
    elif isinstance(p, str):
        a.i = SInt.of(int(p))
    else:
        from pyvc.values import Unsupported
        raise Unsupported('lock_pack of a pack id that is not str(int)')
    return a


def _lockpack_havoc(self, vc, I, a):
    return LockCm(a.self, a.i, a.allow_repack_pack)


def _lockpack_pre_callee(self, vc, a):
    w = vc.world
    yield 'valid_pack_id', b_or(a.i >= 0, SBool.of(a.allow_repack_pack) & (a.i == -1))
    yield 'pack_path_is_a_file', b_and(b_not(w.is_dir(pack_pid(a.self, a.i))), b_not(w.is_dir(lock_pid(a.self, a.i))))


LockPack.bind_actual = _lockpack_bind
LockPack.havoc = _lockpack_havoc
LockPack.pre_callee = _lockpack_pre_callee
LockPack.post_callee = lambda self, vc, a, o, ret: ()

UNITS += [GetPackIdToWriteTo(), LockPack()]


# ----------------------------------------------------------------------------- add_streamed_object / add_object
def layout_inv(vc, w, c):
    """Layout invariant of an initialised container: object paths are files, never directories."""
    w = FS.snap(w)
    d = c.f['$dirs']
    yield 'loose_paths_are_files', Forall(lambda k: b_not(w.is_dir(loose_pid(c, k))))
    yield 'sandbox_paths_are_files', Forall(lambda u: b_not(w.is_dir(FS.PathVal(d.sandbox.base, d.sandbox.parts + (u,)).pid())))


def _loop_add_streamed(vc, L):
    s, h = L.stream, L.fhandle
    pos0 = L.__getattr__('$pos0')
    yield 'cursor_in_stream', b_and(s.pos >= pos0, s.pos <= s.content.length())
    yield 'written_what_was_read', SBytes.of(h.f['_hash'].fed) == s.content.slice(pos0, s.pos)
    for nm, f in WR.hww_rep(h):
        yield 'wrapper:' + nm, f
    yield 'handle_open', SBool.of(not h.f['_write_stream'].closed)
    yield 'writer_untouched', SBool.of(L.writer.f['_filehandle'] is h and L.writer.f['_stored'] is False)


def _havoc_add_streamed(vc, L):
    s, h = L.stream, L.fhandle
    pos0 = vc.ghost['$pos0']
    s.pos = SInt.fresh('spos')
    vc.assume(b_and(s.pos >= pos0, s.pos <= s.content.length()))
    written = s.content.slice(pos0, s.pos)
    h.f['_hash'].fed = written
    fh = h.f['_write_stream']
    split_pack_handle(vc, fh, b'', b'', written)
    h.f['_position'] = written.length()


class AddStreamedObject(CUnit):
    fn = 'container:Container.add_streamed_object'
    props = ('C01', 'C02', 'C05', 'C06', 'C09')
    loops = {0: Loop(0, _loop_add_streamed, havoc=_havoc_add_streamed, fingerprint='True')}
    allowed_exc = ()

    def make(self, vc, I):
        w = mk_world(vc)
        c = mk_container(vc, I, w)
        s = EM.AbsStream(SBytes.fresh('content'), SInt.fresh('pos0'), short_reads=True, name='stream')
        vc.assume(b_and(s.pos >= 0, s.pos <= s.content.length()))
        return NS(self=c, stream=s)

    def pre(self, vc, a):
        yield 'cursor_in_stream', b_and(a.stream.pos >= 0, a.stream.pos <= a.stream.content.length())
        yield from layout_inv(vc, vc.world, a.self)

    def snapshot(self, vc, a):
        w, c, s = vc.world, a.self, a.stream
        rest = s.content.slice(s.pos, None)
        key = EM.H(c.f['$hash'], rest)
        dest = loose_pid(c, key)
        dino = w.inode_at(dest)
        vc.ghost['$pos0'] = s.pos
        return NS(rest=rest, key=key, dest=dest, dest_ino=dino, dest_data=w.data(dino), ent=w.ent, idata=w.idata,
                  fds=[f.num for f in w.open_fds], next_ino=w.next_ino)

    def post(self, vc, a, o, ret):
        w, c = FS.snap(vc.world), a.self
        now = w.inode_at(o.dest)
        yield 'returns_digest_of_exactly_the_streamed_bytes', SStr.of(ret) == o.key
        yield 'object_present_under_its_key', now != 0
        fresh_copy = b_and(now != o.dest_ino, now >= o.next_ino)
        yield 'new_copy_holds_exactly_the_streamed_bytes', implies(now != o.dest_ino, w.data(now) == o.rest)
        yield 'new_copy_is_durable', implies(now != o.dest_ino, w.synced(now) == w.data(now).length())
        good_before = b_and(o.dest_ino != 0, EM.H(c.f['$hash'], o.dest_data) == o.key)
        yield 'correct_existing_copy_is_kept', implies(good_before, b_and(now == o.dest_ino, w.data(now) == o.dest_data))
        yield 'damaged_existing_copy_is_replaced', implies(b_and(o.dest_ino != 0, b_not(good_before)), fresh_copy)
        yield 'no_descriptor_leaked', SBool.of([f.num for f in vc.world.open_fds] == o.fds)
        yield 'stream_consumed', a.stream.pos == a.stream.content.length()
        # frame: no other loose object and no pack is touched (checked here; not part of the summary used by callers)
        if not getattr(self, '_as_callee', False):
            lw = vc.world
            yield 'other_objects_untouched', Forall(lambda k: implies(SStr.of(k) != o.key, b_and(
                lw.inode_at(loose_pid(c, k)) == SInt(z3.Select(o.ent, loose_pid(c, k).t)),
                lw.data(lw.inode_at(loose_pid(c, k))) == SBytes(z3.Select(o.idata, lw.inode_at(loose_pid(c, k)).t)))))


    # callee mode
    def havoc(self, vc, I, a):
        w, c, o = vc.world, a.self, a.o
        ino = w.new_inode(vc, o.rest)
        w.set_synced(ino, o.rest.length())
        good_before = b_and(o.dest_ino != 0, EM.H(c.f['$hash'], o.dest_data) == o.key)
        EM.effect(I, 'publish_loose', key=o.key, ino=ino, ours=b_not(good_before), dest=o.dest)
        w.set_entry(o.dest, ite(good_before, o.dest_ino, ino))
        a.stream.pos = a.stream.content.length()
        return o.key


AddStreamedObject.pre_callee = lambda self, vc, a: AddStreamedObject.pre(self, vc, a)


def _aso_post_callee(self, vc, a, o, ret):
    self._as_callee = True
    try:
        yield from AddStreamedObject.post(self, vc, a, o, ret)
    finally:
        self._as_callee = False


AddStreamedObject.post_callee = _aso_post_callee


class AddObject(CUnit):
    fn = 'container:Container.add_object'
    props = ('C01', 'C02')
    allowed_exc = ()

    def make(self, vc, I):
        w = mk_world(vc)
        c = mk_container(vc, I, w)
        return NS(self=c, content=SBytes.fresh('content'))

    def pre(self, vc, a):
        yield from layout_inv(vc, vc.world, a.self)

    def snapshot(self, vc, a):
        w, c = vc.world, a.self
        key = EM.H(c.f['$hash'], a.content)
        dest = loose_pid(c, key)
        return NS(key=key, dest=dest, dest_ino=w.inode_at(dest))

    def post(self, vc, a, o, ret):
        w = vc.world
        now = w.inode_at(o.dest)
        yield 'returns_digest_of_the_content', SStr.of(ret) == o.key
        yield 'object_present_under_its_key', now != 0
        yield 'new_copy_holds_exactly_the_content', implies(now != o.dest_ino, w.data(now) == SBytes.of(a.content))


import z3
UNITS += [AddStreamedObject(), AddObject()]
