"""Helpers shared by the contract sidecars."""
from pyvc import envmodel as EM
from pyvc.contract import NS, Loop, Unit
from pyvc.engine import Forall, ForallCases, MDict, MList, MSet, PyObj, ExcVal
from pyvc.values import (SBool, SBytes, SInt, SSet, SStr, b_and, b_not, b_or, conc, implies, ite, slen, smax, smin)

T = SBool.of(True)


def new_obj(I, qualcls, **fields):
    o = PyObj(I.prog.classes[qualcls])
    o.f.update(fields)
    return o


def opt_int(vc, hint, label):
    """A parameter of type `int | None` (size arguments of read())."""
    if vc.choose(2, label=label) == 0:
        return None
    return SInt.fresh(hint)


def nonneg(x):
    return SInt.of(x) >= 0
