"""Contract for Container.add_streamed_objects_to_pack (direct-to-pack writes; C01 C03 C05 C06 C09 C13).

Same structure as pack_all_loose (contracts/cpack.py): per-object step invariants on the open pack handle and the batch of
rows to insert, obligations at the effect points (index commit, release of the pack lock)."""
import z3

from .common import *
from .cmodel import *
from .cwrite import layout_inv, read_view
from . import cwrite as CW
from . import helpers as HP
from .cpack import (container_wf, kind, packno, PACK, LOOSE, sel, pal_state, pal_light_frame, elems_of, keys_list, G)
from pyvc import sqlmodel as SQL
from pyvc.values import Unsupported

DEPENDS = ['sync', 'writers', 'cwrite', 'helpers', 'cpack']


class AbsStreamList:
    """The caller's list of readable, seekable streams (arbitrary length, arbitrary contents and positions)."""

    def __init__(self, vc, n=None):
        self.n = n if n is not None else SInt.fresh('nstreams')
        vc.assume(self.n >= 0)

    def sym_truth(self, vc):
        return self.n > 0

    def sym_len(self, I):
        return self.n

    def sym_reversed(self, I):
        return AbsStreamList(I.vc, self.n)

    def sym_tolist(self, I):
        return AbsStreamList(I.vc, self.n)

    def sym_getattr(self, I, name):
        if name == 'pop':
            return EM.OMethod(AbsStreamList.m_pop, self)
        raise Unsupported(f'stream list .{name}')

    def m_pop(self, I):
        vc = I.vc
        if vc.branch(self.n <= 0, label='pop:empty'):
            EM.raise_py('IndexError', origin='pop from empty list')
        self.n = self.n - 1
        s = EM.AbsStream(SBytes.fresh('objcontent'), SInt.fresh('objpos'), short_reads=True, name='stream')
        vc.assume(b_and(s.pos >= 0, s.pos <= s.content.length()))
        vc.ghost['$cur_stream'] = NS(stream=s, content=s.content, pos0=s.pos)
        return s


def cur_view(c, vc):
    """The index as this handle's session sees it (its own uncommitted rows included)."""
    s = c.f['_operation_session']
    return s.view if s.view is not None else SQL.db_of_world(vc.world, vc).table


# ---- listing of the known keys (no_holes)
def _asp_loop_list(vc, L):
    c = L.self
    V = G(vc, '$V0')
    K = L.known_packed_hashkeys.s
    s = c.f['_operation_session']
    yield 'known_keys_are_indexed', Forall(lambda k: implies(K.has(k), V.has(k)))
    yield 'session_pinned', SBool.of(s is G(vc, '$session') and (s.view is None or s.view is V) and not s.dirty or s.view is V)
    yield 'world_untouched', SBool.of(vc.world.ent is G(vc, '$ent0') and vc.world.idata is G(vc, '$idata0'))


def _asp_havoc_list(vc, L):
    L.known_packed_hashkeys.s = SSet.fresh('known')


def _asp_loop_rows(vc, L):
    yield from _asp_loop_list(vc, L)


# ---- the packing loops
def _asp_loop_outer(vc, L):
    c = L.self
    a = G(vc, '$args')
    st = pal_state(vc, c)
    V = cur_view(c, vc)
    Tc = st.T
    yield 'session_is_ours', SBool.of(c.f['_operation_session'] is G(vc, '$session'))
    yield 'own_view_contains_the_committed_index', Forall(lambda k: implies(Tc.has(k), V.same_row(Tc, k)))
    if L.has('known_packed_hashkeys'):
        K = L.known_packed_hashkeys.s
        yield 'known_keys_are_indexed', Forall(lambda k: implies(b_and(SBool.of(a.no_holes), K.has(k)), V.has(k)))
    T0 = G(vc, '$T0')
    yield 'committed_index_only_grows', Forall(lambda k: implies(T0.has(k), Tc.same_row(T0, k)))
    yield 'no_lock_held', Forall(lambda i: sel(st.ent, lock_pid(c, i)) == 0, sort='pack')
    yield 'pack_id_is_the_cached_one', b_and(SInt.of(L.pack_int_id) == SInt.of(c.f['_current_pack_id']), SInt.of(L.pack_int_id) >= 0)
    yield 'no_descriptor_leaked', SBool.of(st.fds == G(vc, '$fds0'))
    yield from pal_light_frame(vc, c, st)


def _asp_havoc_outer(vc, L):
    c = L.self
    w = vc.world
    db = SQL.db_of_world(w, vc)
    w.ent = z3.Const(EM.fresh_name('W.ent'), w.ent.sort())
    w.idata = z3.Const(EM.fresh_name('W.idata'), w.idata.sort())
    w.isync = z3.Const(EM.fresh_name('W.isync'), w.isync.sort())
    w.next_ino = SInt.fresh('W.next_ino')
    db.table = SQL.Table.fresh('Tc')
    s = c.f['_operation_session']
    s.view, s.dirty = SQL.Table.fresh('V'), True
    L.working_stream_list.n = SInt.fresh('nstreams')
    vc.assume(L.working_stream_list.n >= 0)
    c.f['_current_pack_id'] = SInt.fresh('cached_pack_id')
    a = G(vc, '$args')
    if L.has('known_packed_hashkeys'):
        L.known_packed_hashkeys.s = SSet.fresh('known')
    L.hashkeys = MList(None, n=SInt.fresh('nkeys'), elems=SSet.fresh('returned'), on_append=_on_key_returned)


def _on_key_returned(I, lst, key):
    """C01: every key handed back is the digest of exactly the bytes the object now has in the container."""
    vc = I.vc
    cs = vc.ghost.get('$cur_stream')
    c = vc.ghost['$container']
    h = c.f['$hash']
    stored = vc.ghost.get('$cur_stored')       # set by the inner-loop bookkeeping below: what this step stored / found
    ok = b_or(SStr.of(key) == EM.H(h, cs.content.slice(cs.pos0, None)), SStr.of(key) == EM.H(h, cs.content))
    vc.check('returned_key_is_the_digest_of_the_bytes_of_its_stream', ok)


def _asp_loop_inner(vc, L):
    c = L.self
    a = G(vc, '$args')
    w = vc.world
    ph = L.pack_handle
    if '$with' not in vc.ghost:
        vc.ghost['$with'] = NS(st=pal_state(vc, c), data_lock=ph.content(), ino=ph.ino, V=cur_view(c, vc),
                               dirty=c.f['_operation_session'].dirty, view=c.f['_operation_session'].view)
        vc.ghost['$open_pack'] = ph
    W = vc.ghost['$with']
    st0 = W.st
    s = c.f['_operation_session']
    db = SQL.db_of_world(w, vc)
    V = W.V
    last = SInt.of(L.last_pack_int_id)
    B = SQL.batch_of(None, L.obj_dicts)
    logical = ph.logical()
    len_lock = W.data_lock.length()
    h = c.f['$hash']

    yield 'index_and_session_untouched', SBool.of(db.table is st0.T and s is G(vc, '$session') and s.view is W.view and s.dirty == W.dirty)
    yield 'only_the_locked_pack_changes', SBool.of(w.ent is st0.ent and w.next_ino is st0.next_ino and w.dirs is st0.dirs)
    yield 'durability_marks_of_other_files_untouched', SBool(w.isync == z3.Store(st0.isync, W.ino.t, z3.Select(w.isync, W.ino.t)))
    yield 'other_files_untouched', SBool(w.idata == z3.Store(st0.idata, W.ino.t, ph.content().t))
    yield 'pack_handle_open_in_append_mode', SBool.of(isinstance(ph, EM.FileObj) and ph.mode == 'ab' and not ph.closed and ph.ino is W.ino)
    yield 'pack_cursor_at_end', ph.kpos == ph.content().length()
    yield 'flushed_part_only_grows', b_and(ph.content().length() >= len_lock, ph.content().slice(0, len_lock) == W.data_lock)
    yield 'handle_is_the_locked_pack', b_and(sel(st0.ent, pack_pid(c, last)) == W.ino, last >= 0, kind(W.ino) == PACK, packno(W.ino) == last)
    yield 'writing_to_the_chosen_pack', b_and(SInt.of(L.pack_int_id) == last, SInt.of(c.f['_current_pack_id']) == last)
    if L.has('known_packed_hashkeys'):
        K = L.known_packed_hashkeys.s
        yield 'known_keys_are_indexed_or_in_the_batch', Forall(lambda k: implies(b_and(SBool.of(a.no_holes), K.has(k)),
                                                                                  b_or(V.has(k), B.keys.has(k))))
    yield 'batch_length', B.n >= 0
    yield 'empty_batch_has_no_keys', Forall(lambda k: implies(B.n == 0, b_not(B.keys.has(k))))

    def batch_conseq(k):
        bt = B.table
        off, ln, sz, comp = bt.col('offset', k), bt.col('length', k), bt.col('size', k), bt.col('compressed', k)
        stored = logical.slice(off, off + ln)
        content = EM.dec(comp, stored)
        return b_and(
            bt.col('pack_id', k) == last, off >= len_lock, ln >= 0, off + ln <= logical.length(),
            implies(comp, b_and(EM.zvalid(stored), ln > 0)), EM.H(h, content) == SStr.of(k), content.length() == sz,
            implies(b_not(comp), ln == sz))

    def batch_cases(k):
        newest = vc.ghost.get('$newest_key')
        if newest is None:
            return [('any', SBool.of(True))]
        old_b = vc.ghost['$batch_before_append']
        same = SStr.of(k) == SStr.of(newest)
        return [('the_object_just_appended', b_and(same, b_not(old_b.keys.has(newest))), SStr.of(newest)),
                ('a_key_appended_again_first_row_wins', b_and(same, old_b.keys.has(newest)), SStr.of(newest)),
                ('an_earlier_object', SStr.of(k) != SStr.of(newest))]
    yield 'batch_rows_designate_what_was_appended', ForallCases(lambda k: B.keys.has(k), batch_cases, batch_conseq)
    yield 'descriptors', SBool.of([f.num for f in w.open_fds if f is not ph.fdrec] == G(vc, '$fds0'))


def _asp_havoc_inner(vc, L):
    c = L.self
    w = vc.world
    ph = L.pack_handle
    W = vc.ghost['$with']
    a = G(vc, '$args')
    L.working_stream_list.n = SInt.fresh('nstreams')
    vc.assume(L.working_stream_list.n >= 0)
    L.obj_dicts = SQL.batch_list(SQL.RowBatch.fresh('batch'))
    L.obj_dicts.g['batch'].fields = {'hashkey', 'pack_id', 'offset', 'compressed', 'size', 'length'}
    c.f['_current_pack_id'] = SInt.fresh('cached_pack_id')
    if L.has('known_packed_hashkeys'):
        L.known_packed_hashkeys.s = SSet.fresh('known')
    L.hashkeys = MList(None, n=SInt.fresh('nkeys'), elems=SSet.fresh('returned'), on_append=_on_key_returned)
    w.idata = W.st.idata
    CW.split_pack_handle(vc, ph, W.data_lock, b'', SBytes.fresh('appended'))


class AddStreamedObjectsToPack(CUnit):
    fn = 'container:Container.add_streamed_objects_to_pack'
    props = ('C01', 'C03', 'C05', 'C06', 'C09', 'C13')
    allowed_exc = ()
    timeout_ms = 8000
    parallel = True
    tier = 'quick'          # about 7 minutes on 14 cores; run under C03 and C09 in the every-change tier (memoised)
    quick_props = ('C03', 'C09')
    variants = 'all'
    loops = {
        0: Loop(0, _asp_loop_list, havoc=_asp_havoc_list, fingerprint='True'),
        1: Loop(1, _asp_loop_rows, havoc=_asp_havoc_list, fingerprint='(_, hashkey) in results_chunk'),
        2: Loop(2, _asp_loop_outer, havoc=_asp_havoc_outer, fingerprint='working_stream_list'),
        3: Loop(3, _asp_loop_inner, havoc=_asp_havoc_inner, fingerprint='working_stream_list'),
    }

    def make(self, vc, I):
        w = mk_world(vc)
        c = mk_container(vc, I, w, session='open', hash_types=('sha256',))
        db = SQL.db_of_world(w, vc)
        if self.variants == 'all':
            no_holes, twice = vc.fresh_bool('no_holes'), vc.fresh_bool('no_holes_read_twice')
            do_commit = vc.fresh_bool('do_commit')
        else:
            # every-change variant: the default parameters except no_holes (both values)
            no_holes, twice, do_commit = vc.fresh_bool('no_holes'), True, True
        return NS(self=c, stream_list=AbsStreamList(vc), compress=(vc.choose(2, label='compress') == 1), open_streams=False,
                  no_holes=no_holes, no_holes_read_twice=twice, callback=None, do_fsync=vc.fresh_bool('do_fsync'),
                  do_commit=do_commit)

    def pre(self, vc, a):
        w, c = vc.world, a.self
        db = SQL.db_of_world(w, vc)
        yield from container_wf(vc, w, c, db.table)
        cur_ = c.f['_current_pack_id']
        if cur_ is not None:
            yield 'cached_pack_id_nonneg', SInt.of(cur_) >= 0
        fw = FS.snap(w)
        yield 'no_stale_lock', Forall(lambda i: fw.inode_at(lock_pid(c, i)) == 0, sort='pack')

    def snapshot(self, vc, a):
        w, c = vc.world, a.self
        db = SQL.db_of_world(w, vc)
        vc.ghost['$T0'] = db.table
        vc.ghost['$V0'] = db.table
        vc.ghost['$ent0'], vc.ghost['$idata0'], vc.ghost['$isync0'] = w.ent, w.idata, w.isync
        vc.ghost['$next_ino0'], vc.ghost['$dirs0'] = w.next_ino, w.dirs
        vc.ghost['$fds0'] = [f.num for f in w.open_fds]
        vc.ghost['$session'] = c.f['_operation_session']
        vc.ghost['$container'] = c
        vc.ghost['$args'] = a
        vc.ghost['$full'] = False
        vc.env_hook = asp_hook
        return NS(T=db.table, ent=w.ent, idata=w.idata, fds=[f.num for f in w.open_fds])

    def post(self, vc, a, o, ret):
        c = a.self
        st = pal_state(vc, c)
        yield 'no_descriptor_leaked', SBool.of(st.fds == o.fds)
        yield 'no_lock_left', Forall(lambda i: sel(st.ent, lock_pid(c, i)) == 0, sort='pack')
        yield 'committed_index_only_grows', Forall(lambda k: implies(o.T.has(k), st.T.same_row(o.T, k)))


def asp_hook(I, tag, payload):
    """Effect-point obligations of add_streamed_objects_to_pack."""
    vc = I.vc
    c = vc.ghost.get('$container')
    a = vc.ghost.get('$args')
    w = vc.world
    W = vc.ghost.get('$with')
    if tag == 'sql_insert':
        vc.ghost['$inserted'] = NS(before=payload['before'], after=payload['after'])
    if tag == 'lock_released' and '$inserted' in vc.ghost:
        ins = vc.ghost['$inserted']
        before, after = ins.before, ins.after
        # the pack is closed now: every row inserted while it was locked designates complete (and, with fsync on,
        # durable) bytes -- whether or not the commit is done here (do_commit=False leaves it to the caller)
        vc.check('unlock:rows_inserted_under_the_lock_designate_complete_objects_on_disk',
                 Forall(lambda k: implies(b_and(after.has(k), b_not(before.has(k))), row_ok(w, after, c, k))))
        vc.check('unlock:rows_inserted_under_the_lock_are_durable_when_fsync_is_on',
                 Forall(lambda k: implies(b_and(SBool.of(a.do_fsync), after.has(k), b_not(before.has(k))),
                                          row_ok(w, after, c, k, synced=True))))
        vc.check('unlock:existing_rows_kept', Forall(lambda k: implies(before.has(k), after.same_row(before, k))))
        if W is not None:
            vc.check('unlock:new_rows_lie_beyond_the_previous_end_of_the_pack',
                     Forall(lambda k: implies(b_and(after.has(k), b_not(before.has(k))), after.col('offset', k) >= W.data_lock.length())))
    if tag == 'pre_sql_commit':
        before, after = payload['before'], payload['after']
        vc.check('commit:committed_rows_kept', Forall(lambda k: implies(before.has(k), after.same_row(before, k))))
        vc.check('commit:no_pack_handle_open', SBool.of(vc.ghost.get('$open_pack') is None or vc.ghost['$open_pack'].closed))


UNITS = [AddStreamedObjectsToPack()]
