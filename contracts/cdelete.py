"""Contract for Container.delete_objects on a container WITHOUT duplicate files (precondition, as for clean_storage; the
filtering of duplicate names is string matching and stays with the bounded histories) -- C11, deletion half; C02:

  * exactly the loose files of the requested keys are unlinked, exactly the rows of the requested keys are deleted, every
    other row, loose file, pack file and all file contents are untouched;
  * the keys returned are exactly the requested keys that existed (loose or indexed);
  * order of effects (documented in the function): when the index deletion is committed, the loose copies of the deleted
    rows are already gone -- a failure in between never turns a packed object back into a loose one.
Sessions: none / open without a pinned snapshot (deletion is a maintenance operation without concurrent access)."""
import z3

from .common import *
from .cmodel import *
from . import helpers as HP
from . import cwrite as CWL
from pyvc import sqlmodel as SQL
from pyvc.values import Unsupported

DEPENDS = ['helpers']


def G(vc, n):
    return vc.ghost[n]


def was_loose(vc, c, k):
    return SInt(z3.Select(G(vc, '$ent0'), loose_pid(c, k).t)) != 0


def world_frame(vc, w, c):
    ent0 = G(vc, '$ent0')
    yield 'packs_and_locks_untouched', Forall(lambda i: b_and(w.inode_at(pack_pid(c, i)) == SInt(z3.Select(ent0, pack_pid(c, i).t)),
                                                              w.inode_at(lock_pid(c, i)) == SInt(z3.Select(ent0, lock_pid(c, i).t))), sort='pack')
    yield 'no_file_content_changed', SBool(w.idata == G(vc, '$idata0'))
    idx = FS.PathVal(c.f['$dirs'].folder.base, ('packs.idx',)).pid()
    yield 'index_file_untouched', w.inode_at(idx) == SInt(z3.Select(ent0, idx.t))


def loose_inv(vc, L):
    c = L.self
    live = vc.world
    w = FS.snap(live)
    done, ent0 = L.done, G(vc, '$ent0')
    DL = L.deleted_loose.s
    s = c.f['_operation_session']
    yield 'index_and_session_untouched', SBool.of(SQL.db_of_world(live, vc).table is G(vc, '$T') and s is G(vc, '$session0')
                                                  and (s is None or (s.view is None and not s.dirty)))
    yield 'visited_loose_files_removed', Forall(lambda k: implies(done.has(k), w.inode_at(loose_pid(c, k)) == 0))
    yield 'other_loose_files_untouched', Forall(lambda k: implies(b_not(done.has(k)),
                                                                  w.inode_at(loose_pid(c, k)) == SInt(z3.Select(ent0, loose_pid(c, k).t))))
    yield 'recorded_exactly_the_visited_keys_that_were_loose', Forall(lambda k: DL.has(k) == b_and(done.has(k), was_loose(vc, c, k)))
    yield from world_frame(vc, w, c)


def havoc_loose(vc, L):
    w = vc.world
    w.ent = z3.Const(EM.fresh_name('W.ent'), w.ent.sort())
    L.deleted_loose.s = SSet.fresh('deleted_loose')


def trivial_inv(vc, L):
    return ()


def chunks_inv(vc, L):
    c = L.self
    live = vc.world
    s = c.f['_operation_session']
    T, done = G(vc, '$T'), L.done
    if '$ent1' not in vc.ghost:
        vc.ghost['$ent1'], vc.ghost['$loose1'] = live.ent, L.deleted_loose.s
    DP = L.deleted_packed.s
    db = SQL.db_of_world(live, vc)
    ok = s is not None and db.table is T
    yield 'index_not_yet_committed', SBool.of(ok)
    if ok:
        V = s.view if s.view is not None else T
        yield 'rows_of_the_chunks_done_deleted_in_the_transaction', Forall(lambda k: V.has(k) == b_and(T.has(k), b_not(done.has(k))))
        yield 'other_rows_untouched', Forall(lambda k: implies(V.has(k), V.same_row(T, k)))
    yield 'recorded_exactly_the_indexed_keys_of_the_chunks_done', Forall(lambda k: DP.has(k) == b_and(done.has(k), T.has(k)))
    yield 'files_untouched_by_the_index_phase', SBool.of(live.ent is G(vc, '$ent1') and live.idata is G(vc, '$idata0')
                                                          and L.deleted_loose.s is G(vc, '$loose1'))


def havoc_chunks(vc, L):
    c = L.self
    s = c.f['_operation_session']
    T = G(vc, '$T')
    L.deleted_packed.s = SSet.fresh('deleted_packed')
    if vc.choose(2, label='transaction_started') == 1:
        s.view = SQL.Table(SSet.fresh('V.present'), T.cols, T.next_id)
        s.dirty = True
    else:
        s.view, s.dirty = None, False


class DeleteObjects(CUnit):
    fn = 'container:Container.delete_objects'
    mode = 'no_duplicates'
    props = ('C11', 'C02', 'C17')
    allowed_exc = ()
    timeout_ms = 8000
    parallel = True
    loops = {
        0: Loop(0, loose_inv, havoc=havoc_loose),
        1: Loop(1, trivial_inv),
        2: Loop(2, chunks_inv, havoc=havoc_chunks),
    }

    def make(self, vc, I):
        w = mk_world(vc)
        which = vc.choose(2, label='session_before_the_call')
        c = mk_container(vc, I, w, session='open' if which else 'none', hash_types=('sha256',))
        cls = I.prog.classes['container:Container']
        cls.attrs['_IN_SQL_MAX_LENGTH'] = SInt.fresh('IN_SQL_MAX')
        vc.assume(SInt.of(cls.attrs['_IN_SQL_MAX_LENGTH']) >= 1)
        req = SSet.fresh('requested')
        return NS(self=c, hashkeys=MList(None, n=SInt.fresh('nreq'), elems=req), req=req)

    def pre(self, vc, a):
        w, c = vc.world, a.self
        yield from CWL.layout_inv(vc, w, c)
        fw = FS.snap(w)
        dup = c.f['$dirs'].duplicates
        yield 'no_duplicate_files', Forall(lambda n: b_and(fw.inode_at(FS.PathVal(dup.base, dup.parts + (n,)).pid()) == 0,
                                                            b_not(fw.is_dir(FS.PathVal(dup.base, dup.parts + (n,)).pid()))))

    def snapshot(self, vc, a):
        w, c = vc.world, a.self
        T = SQL.db_of_world(w, vc).table
        vc.ghost['$T'] = T
        vc.ghost['$ent0'], vc.ghost['$idata0'] = w.ent, w.idata
        vc.ghost['$session0'] = c.f['_operation_session']
        vc.ghost['$container'], vc.ghost['$args'] = c, a
        vc.env_hook = del_hook
        return NS(T=T, ent=w.ent, idata=w.idata, req=a.req, files=[f.num for f in w.open_fds if f.what != 'sqlite'])

    def post(self, vc, a, o, ret):
        live, c = vc.world, a.self
        w = FS.snap(live)
        T0, req = o.T, o.req
        T = SQL.db_of_world(live, vc).table
        was = lambda k: SInt(z3.Select(o.ent, loose_pid(c, k).t))
        yield 'requested_loose_files_removed', Forall(lambda k: implies(req.has(k), w.inode_at(loose_pid(c, k)) == 0))
        yield 'other_loose_files_untouched', Forall(lambda k: implies(b_not(req.has(k)), w.inode_at(loose_pid(c, k)) == was(k)))
        yield 'exactly_the_requested_rows_deleted', Forall(lambda k: T.has(k) == b_and(T0.has(k), b_not(req.has(k))))
        yield 'other_rows_untouched', Forall(lambda k: implies(T.has(k), T.same_row(T0, k)))
        yield from world_frame(vc, w, c)
        ok = isinstance(ret, MList) and ret.items is None and 'elems' in ret.g
        yield 'returns_a_list_of_keys', SBool.of(ok)
        if ok:
            R = ret.g['elems']
            yield 'returned_exactly_the_requested_keys_that_existed', Forall(
                lambda k: R.has(k) == b_and(req.has(k), b_or(was(k) != 0, T0.has(k))))
        s = c.f['_operation_session']
        yield 'nothing_left_uncommitted', SBool.of(s is not None and not s.dirty)
        yield 'no_descriptor_leaked', SBool.of([f.num for f in live.open_fds if f.what != 'sqlite'] == o.files)


def del_hook(I, tag, payload):
    vc = I.vc
    c = vc.ghost.get('$container')
    a = vc.ghost.get('$args')
    if tag == 'pre_sql_commit':
        before, after = payload['before'], payload['after']
        fw = FS.snap(vc.world)
        req = a.req
        vc.check('commit:only_rows_of_requested_keys_are_deleted', Forall(
            lambda k: b_and(implies(after.has(k), b_and(before.has(k), after.same_row(before, k))),
                            implies(b_and(before.has(k), b_not(after.has(k))), req.has(k)))))
        vc.check('commit:loose_copies_of_the_deleted_rows_are_already_gone', Forall(
            lambda k: implies(b_and(before.has(k), b_not(after.has(k))), fw.inode_at(loose_pid(c, k)) == 0)))
    elif tag == 'pre_remove':
        p = payload['path'].pid()
        req = a.req
        vc.check('unlink:only_loose_files_of_requested_keys', Forall(lambda k: implies(loose_pid(c, k) == p, req.has(k))))


UNITS = HP.HELPER_SUMMARIES + [DeleteObjects()]
