"""Contracts for Container.pack_all_loose and Container._clean_loose_objects.

Obligations are attached to the effect points (DESIGN.md 2.8): the index commit and every unlink of a loose file.
"""
import z3

from .common import *
from .cmodel import *
from .cwrite import layout_inv, read_view
from . import cwrite as CW
from . import helpers as HP
from pyvc import sqlmodel as SQL
from pyvc.values import Unsupported

DEPENDS = ['sync', 'writers', 'cwrite', 'helpers']

KIND_fn = z3.Function('inode_kind', z3.IntSort(), z3.IntSort())      # ghost: 1 = loose object file, 2 = pack file
LOOSE, PACK = 1, 2


PACKNO_fn = z3.Function('pack_of_inode', z3.IntSort(), z3.IntSort())  # ghost: which pack id an inode is the file of


def kind(ino):
    return SInt(KIND_fn(SInt.of(ino).t))


def packno(ino):
    return SInt(PACKNO_fn(SInt.of(ino).t))


# ----------------------------------------------------------------------------- container well-formedness (precondition)
def container_wf(vc, w, c, T, durable=False):
    """WF(W): what every public operation may rely on and must re-establish (C03)."""
    w = FS.snap(w)
    ent, idata = w.ent, w.idata
    h = c.f['$hash']

    def loose_ok(k):
        ino = SInt(z3.Select(ent, loose_pid(c, k).t))
        return implies(ino != 0, b_and(EM.H(h, SBytes(z3.Select(idata, ino.t))) == SStr.of(k), kind(ino) == LOOSE))
    yield 'every_loose_file_is_named_by_its_digest', Forall(loose_ok)
    yield 'every_index_row_designates_its_object', Forall(lambda k: implies(T.has(k), row_ok(w, T, c, k)))
    if durable:
        yield 'every_indexed_range_is_durable', Forall(lambda k: implies(T.has(k), row_ok(w, T, c, k, synced=True)))
    # no hard links between pack files (packno is a ghost inverse: one inode, one pack id)
    nxt0 = w.next_ino
    yield 'pack_inodes_are_pack_files', Forall(lambda i: b_and(implies(w.inode_at(pack_pid(c, i)) != 0, b_and(
        kind(w.inode_at(pack_pid(c, i))) == PACK, packno(w.inode_at(pack_pid(c, i))) == i)),
        w.inode_at(pack_pid(c, i)) >= 0, w.inode_at(pack_pid(c, i)) < nxt0), sort='pack')
    yield 'pack_paths_are_files', Forall(lambda i: b_and(b_not(w.is_dir(pack_pid(c, i))), b_not(w.is_dir(lock_pid(c, i)))), sort='pack')
    # representation invariant of the world: directory entries point at allocated inodes
    nxt = w.next_ino
    yield 'loose_entries_point_at_allocated_inodes', Forall(lambda k: b_and(SInt(z3.Select(ent, loose_pid(c, k).t)) >= 0,
                                                                            SInt(z3.Select(ent, loose_pid(c, k).t)) < nxt))
    yield from layout_inv(vc, w, c)


# ----------------------------------------------------------------------------- _clean_loose_objects
def _loop_clean(vc, L):
    c = L.self
    live = vc.world
    w = FS.snap(live)
    done = L.done
    ent0 = L.__getattr__('$ent0')
    yield 'index_untouched', SBool.of(SQL.db_of_world(live, vc).table is L.__getattr__('$table0'))
    yield 'visited_loose_files_removed', Forall(lambda k: implies(done.has(k), w.inode_at(loose_pid(c, k)) == 0))
    yield 'other_loose_files_untouched', Forall(lambda k: implies(b_not(done.has(k)),
                                                                  w.inode_at(loose_pid(c, k)) == SInt(z3.Select(ent0, loose_pid(c, k).t))))
    yield 'no_file_content_changed', SBool(w.idata == L.__getattr__('$idata0'))


def _havoc_clean(vc, L):
    w = vc.world
    w.ent = z3.Const(EM.fresh_name('W.ent'), w.ent.sort())


class CleanLooseObjects(CUnit):
    """C05/C04: a loose file is unlinked only when its key is in the COMMITTED index."""
    fn = 'container:Container._clean_loose_objects'
    props = ('C05', 'C04', 'C06', 'C02')
    allowed_exc = ()
    loops = {0: Loop(0, _loop_clean, havoc=_havoc_clean, fingerprint='obj_hashkey in hashkeys')}

    def make(self, vc, I):
        w = mk_world(vc)
        c = mk_container(vc, I, w)
        keys = SSet.fresh('to_clean')
        db = SQL.db_of_world(w, vc)
        vc.env_hook = remove_hook
        return NS(self=c, hashkeys=MList(None, elems=keys, n=SInt.fresh('n')), keys=keys)

    def pre(self, vc, a):
        w = vc.world
        T = SQL.db_of_world(w, vc).table
        w = FS.snap(w)
        keys = a.keys
        yield 'only_committed_keys', Forall(lambda k: implies(keys.has(k), T.has(k)))
        yield from layout_inv(vc, w, a.self)

    def snapshot(self, vc, a):
        w = vc.world
        vc.ghost['$table0'] = SQL.db_of_world(w, vc).table
        vc.ghost['$clean_container'] = a.self
        vc.ghost['$ent0'], vc.ghost['$idata0'] = w.ent, w.idata
        return NS(ent=w.ent, idata=w.idata, keys=a.keys)

    def post(self, vc, a, o, ret):
        w, c = FS.snap(vc.world), a.self
        yield 'requested_loose_files_removed', Forall(lambda k: implies(o.keys.has(k), w.inode_at(loose_pid(c, k)) == 0))
        yield 'other_loose_files_untouched', Forall(lambda k: implies(b_not(o.keys.has(k)),
                                                                      w.inode_at(loose_pid(c, k)) == SInt(z3.Select(o.ent, loose_pid(c, k).t))))
        yield 'no_file_content_changed', SBool(w.idata == o.idata)

    # callee mode
    def bind_actual(self, I, f, args, kwargs):
        a = super().bind_actual(I, f, args, kwargs)
        a.keys = EM._as_sset(I, a.hashkeys)
        return a

    def havoc(self, vc, I, a):
        w, c, keys = vc.world, a.self, a.keys
        old = w.ent
        new = z3.Const(EM.fresh_name('W.ent'), old.sort())
        # exactly the entries of the requested keys are dropped
        w.ent = new
        vc.assume(Forall(lambda k: SInt(z3.Select(new, loose_pid(c, k).t)) ==
                         ite(keys.has(k), 0, SInt(z3.Select(old, loose_pid(c, k).t)))))
        vc.assume(Forall(lambda i: b_and(SInt(z3.Select(new, pack_pid(c, i).t)) == SInt(z3.Select(old, pack_pid(c, i).t)),
                                         SInt(z3.Select(new, lock_pid(c, i).t)) == SInt(z3.Select(old, lock_pid(c, i).t))), sort='pack'))
        EM.effect(I, 'remove_loose_batch', keys=keys)
        return None


def remove_hook(I, tag, payload):
    vc = I.vc
    if tag != 'pre_remove':
        return
    c = vc.ghost.get('$clean_container')
    if c is None:
        return
    w = vc.world
    T = SQL.db_of_world(w, vc).table
    p = payload['path'].pid()
    k = vc.fresh_key('removed')
    # the unlinked path is a loose object path => its key is in the committed index
    vc.check('unlink:loose_file_removed_only_after_its_index_entry_is_committed',
             Forall(lambda k2: implies(loose_pid(c, k2) == p, T.has(k2))))


UNITS = [CleanLooseObjects()]


# ----------------------------------------------------------------------------- pack_all_loose
def elems_of(I_or_none, lst):
    if isinstance(lst, MList):
        if lst.items is not None:
            s = SSet.empty()
            for x in lst.items:
                s = s.add(x)
            return s
        return lst.g['elems']
    raise Unsupported(f'elements of {lst!r}')


def keys_list(elems, hint='list'):
    return MList(None, elems=elems, n=SInt.fresh(hint + '.n'))


def G(vc, name):
    if name == '$L0':
        return vc.ghost['$first:container:Container._list_loose'].items
    if name == '$pack0':
        return vc.ghost['$first:container:Container._get_pack_id_to_write_to']
    return vc.ghost[name]


# ---- phase 1: which loose keys are already indexed
def _pal_loop_chunks(vc, L):
    T, L0 = G(vc, '$T0'), G(vc, '$L0')
    E, done = elems_of(None, L.existing_packed_hashkeys), L.done
    vc.ghost['$chunks_done'] = done
    vc.ghost['$E_at_chunk_start'] = E
    yield 'found_exactly_the_indexed_keys_of_the_chunks_done', Forall(lambda k: E.has(k) == b_and(done.has(k), T.has(k)))
    yield 'loose_set_untouched', L.loose_objects.s == L0
    yield from _pal_phase1_frame(vc, L)


def _pal_phase1_frame(vc, L):
    c = L.self
    s = c.f['_operation_session']
    db = SQL.db_of_world(vc.world, vc)
    yield 'session_clean_and_index_untouched', SBool.of(s is G(vc, '$session') and (s.view is None or s.view is G(vc, '$T0'))
                                                        and not s.dirty and db.table is G(vc, '$T0'))
    yield 'world_untouched', SBool.of(vc.world.ent is G(vc, '$ent0') and vc.world.idata is G(vc, '$idata0'))
    yield 'pack_id_kept', SBool.of(L.pack_int_id is G(vc, '$pack0'))


def _pal_havoc_existing(vc, L):
    L.existing_packed_hashkeys = keys_list(SSet.fresh('existing'), 'existing')


def _pal_loop_rows(vc, L):
    T, L0 = G(vc, '$T0'), G(vc, '$L0')
    E, delivered = elems_of(None, L.existing_packed_hashkeys), L.done
    cdone, E0 = G(vc, '$chunks_done'), G(vc, '$E_at_chunk_start')
    yield 'found_so_far', Forall(lambda k: E.has(k) == b_or(E0.has(k), delivered.has(k)))
    yield 'loose_set_untouched', L.loose_objects.s == L0
    yield from _pal_phase1_frame(vc, L)


def _pal_loop_where(vc, L):
    T, L0 = G(vc, '$T0'), G(vc, '$L0')
    E, done = elems_of(None, L.existing_packed_hashkeys), L.done
    yield 'found_exactly_the_indexed_loose_keys_classified', Forall(lambda k: E.has(k) == b_and(done.has(k), T.has(k), L0.has(k)))
    yield 'loose_set_untouched', L.loose_objects.s == L0
    yield from _pal_phase1_frame(vc, L)



# ---- phase 2: the packing loops
def sel(arr, idx):
    t = z3.Select(arr, SInt.of(idx).t)
    return SBytes(z3.simplify(t)) if t.sort() == z3.StringSort() else SInt(t)


def pal_state(vc, c):
    """Snapshot of everything the packing-loop invariants talk about (immutable terms only)."""
    w = vc.world
    db = SQL.db_of_world(w, vc)
    return NS(ent=w.ent, idata=w.idata, isync=w.isync, next_ino=w.next_ino, dirs=w.dirs, T=db.table,
              fds=[f.num for f in w.open_fds])


def pal_frame(vc, c, st, a, new_rows_ok_data=None):
    """Facts relating the current state `st` to the state at function entry (ghost $T0, $ent0, $idata0, ...)."""
    T0, ent0, idata0, isync0, next0 = G(vc, '$T0'), G(vc, '$ent0'), G(vc, '$idata0'), G(vc, '$isync0'), G(vc, '$next_ino0')
    L0 = G(vc, '$L0')
    T, ent, idata, isync = st.T, st.ent, st.idata, st.isync
    h = c.f['$hash']
    w = NS(inode_at=lambda p: sel(ent, p), data=lambda i: sel(idata, i), synced=lambda i: sel(isync, i),
           is_dir=lambda p: SBool(z3.Select(st.dirs, SInt.of(p).t)))
    do_fsync = SBool.of(a.do_fsync)

    yield 'index_only_grows', Forall(lambda k: implies(T0.has(k), T.same_row(T0, k)))
    yield 'every_index_row_designates_its_object', Forall(lambda k: implies(T.has(k), row_ok(w, T, c, k)))
    yield 'new_index_rows_are_durable', Forall(lambda k: implies(b_and(do_fsync, T.has(k), b_not(T0.has(k))),
                                                                 row_ok(w, T, c, k, synced=True)))
    yield 'new_index_rows_are_former_loose_objects', Forall(lambda k: implies(b_and(T.has(k), b_not(T0.has(k))), L0.has(k)))
    yield 'loose_file_gone_only_if_indexed', Forall(lambda k: b_or(
        sel(ent, loose_pid(c, k)) == sel(ent0, loose_pid(c, k)),
        b_and(sel(ent, loose_pid(c, k)) == 0, T.has(k))))
    yield 'loose_files_untouched', Forall(lambda k: implies(
        b_and(sel(ent, loose_pid(c, k)) != 0, sel(ent, loose_pid(c, k)) == sel(ent0, loose_pid(c, k))),
        b_and(sel(idata, sel(ent, loose_pid(c, k))) == sel(idata0, sel(ent0, loose_pid(c, k))),
              kind(sel(ent, loose_pid(c, k))) == LOOSE)))
    yield 'pack_files_only_grow', Forall(lambda i: implies(sel(ent0, pack_pid(c, i)) != 0, b_and(
        sel(idata, sel(ent, pack_pid(c, i))).length() >= sel(idata0, sel(ent0, pack_pid(c, i))).length(),
        sel(idata, sel(ent, pack_pid(c, i))).slice(0, sel(idata0, sel(ent0, pack_pid(c, i))).length()) == sel(idata0, sel(ent0, pack_pid(c, i))),
        sel(isync, sel(ent, pack_pid(c, i))) >= sel(isync0, sel(ent0, pack_pid(c, i))))), sort='pack')
    yield 'loose_entries_are_allocated_inodes', Forall(lambda k: b_and(sel(ent, loose_pid(c, k)) >= 0, sel(ent, loose_pid(c, k)) < st.next_ino))
    yield 'pack_entries_kept', Forall(lambda i: b_and(
        implies(sel(ent0, pack_pid(c, i)) != 0, sel(ent, pack_pid(c, i)) == sel(ent0, pack_pid(c, i))),
        implies(sel(ent, pack_pid(c, i)) != 0, b_and(kind(sel(ent, pack_pid(c, i))) == PACK, packno(sel(ent, pack_pid(c, i))) == i)),
        sel(ent, pack_pid(c, i)) >= 0, sel(ent, pack_pid(c, i)) < st.next_ino), sort='pack')
    yield 'inode_numbers_only_grow', st.next_ino >= next0
    yield 'directories_untouched', SBool.of(st.dirs is G(vc, '$dirs0'))


def remaining_ok(c, ent, idata, next_ino, R):
    """Every key still to be packed has its intact loose file (named by its digest)."""
    h = c.f['$hash']
    return Forall(lambda k: implies(R.has(k), b_and(
        sel(ent, loose_pid(c, k)) > 0, sel(ent, loose_pid(c, k)) < next_ino, kind(sel(ent, loose_pid(c, k))) == LOOSE,
        EM.H(h, sel(idata, sel(ent, loose_pid(c, k)))) == SStr.of(k))))


def pal_light_frame(vc, c, st):
    ent = st.ent
    yield 'pack_entries_are_pack_files', Forall(lambda i: b_and(
        implies(sel(ent, pack_pid(c, i)) != 0, b_and(kind(sel(ent, pack_pid(c, i))) == PACK, packno(sel(ent, pack_pid(c, i))) == i)),
        sel(ent, pack_pid(c, i)) >= 0, sel(ent, pack_pid(c, i)) < st.next_ino), sort='pack')
    yield 'directories_untouched', SBool.of(st.dirs is G(vc, '$dirs0'))


def _pal_loop_outer(vc, L):
    c = L.self
    a = G(vc, '$args')
    st = pal_state(vc, c)
    s = c.f['_operation_session']
    R = L.loose_objects.s
    T, L0 = st.T, G(vc, '$L0')
    yield 'session_clean', SBool.of(s is G(vc, '$session') and (s.view is None or s.view is T) and not s.dirty)
    yield 'remaining_keys_are_loose_and_not_indexed', Forall(lambda k: implies(R.has(k), b_and(L0.has(k), b_not(T.has(k)))))
    yield 'remaining_keys_have_intact_loose_files', remaining_ok(c, st.ent, st.idata, st.next_ino, R)
    yield 'no_lock_held', Forall(lambda i: sel(st.ent, lock_pid(c, i)) == 0, sort='pack')
    yield 'pack_id_is_the_cached_one', b_and(SInt.of(L.pack_int_id) == SInt.of(c.f['_current_pack_id']), SInt.of(L.pack_int_id) >= 0)
    yield 'no_descriptor_leaked', SBool.of(st.fds == G(vc, '$fds0'))
    if G(vc, '$full'):
        yield from pal_frame(vc, c, st, a)
    else:
        yield from pal_light_frame(vc, c, st)


def _pal_havoc_outer(vc, L):
    c = L.self
    w = vc.world
    db = SQL.db_of_world(w, vc)
    w.ent = z3.Const(EM.fresh_name('W.ent'), w.ent.sort())
    w.idata = z3.Const(EM.fresh_name('W.idata'), w.idata.sort())
    w.isync = z3.Const(EM.fresh_name('W.isync'), w.isync.sort())
    w.next_ino = SInt.fresh('W.next_ino')
    db.table = SQL.Table.fresh('Tc')
    s = c.f['_operation_session']
    s.view, s.dirty = None, False
    L.loose_objects.s = SSet.fresh('remaining')
    c.f['_current_pack_id'] = SInt.fresh('cached_pack_id')


def _pal_loop_inner(vc, L):
    c = L.self
    a = G(vc, '$args')
    w = vc.world
    ph = L.pack_handle
    if '$with' not in vc.ghost:
        # first evaluation on this path = entry of the inner loop, right after the pack was locked and opened
        vc.ghost['$with'] = NS(st=pal_state(vc, c), data_lock=ph.content(), ino=ph.ino, R=L.loose_objects.s)
    W = vc.ghost['$with']
    st0 = W.st
    s = c.f['_operation_session']
    db = SQL.db_of_world(w, vc)
    T, L0 = st0.T, G(vc, '$L0')
    R = L.loose_objects.s
    last = SInt.of(L.last_pack_int_id)
    B = SQL.batch_of(None, L.obj_dicts)
    P = elems_of(None, L.packed_in_current_pack)
    logical = ph.logical()
    len_lock = W.data_lock.length()
    h = c.f['$hash']

    yield 'index_untouched_session_clean', SBool.of(db.table is T and s is G(vc, '$session') and (s.view is None or s.view is T) and not s.dirty)
    yield 'only_the_locked_pack_changes', SBool.of(w.ent is st0.ent and w.next_ino is st0.next_ino and w.dirs is st0.dirs)
    yield 'durability_marks_of_other_files_untouched', SBool(w.isync == z3.Store(st0.isync, W.ino.t, z3.Select(w.isync, W.ino.t)))
    yield 'other_files_untouched', SBool(w.idata == z3.Store(st0.idata, W.ino.t, ph.content().t))
    yield 'pack_handle_open_in_append_mode', SBool.of(isinstance(ph, EM.FileObj) and ph.mode == 'ab' and not ph.closed and ph.ino is W.ino)
    yield 'pack_cursor_at_end', ph.kpos == ph.content().length()
    yield 'flushed_part_only_grows', b_and(ph.content().length() >= len_lock, ph.content().slice(0, len_lock) == W.data_lock)
    yield 'handle_is_the_locked_pack', b_and(sel(st0.ent, pack_pid(c, last)) == W.ino, last >= 0, kind(W.ino) == PACK, packno(W.ino) == last)
    yield 'writing_to_the_chosen_pack', b_and(SInt.of(L.pack_int_id) == last, SInt.of(c.f['_current_pack_id']) == last)
    yield 'remaining_keys_are_loose_and_not_indexed', Forall(lambda k: implies(R.has(k), b_and(L0.has(k), b_not(T.has(k)), W.R.has(k))))
    yield 'remaining_keys_have_intact_loose_files', remaining_ok(c, st0.ent, st0.idata, st0.next_ino, W.R)
    yield 'cleanup_list_is_exactly_the_batch', Forall(lambda k: P.has(k) == B.keys.has(k))
    yield 'batch_has_no_duplicate_key', b_not(B.dup)
    yield 'list_lengths_agree', b_and(B.n >= 0, SInt.of(L.packed_in_current_pack.g['n'] if L.packed_in_current_pack.items is None
                                                       else len(L.packed_in_current_pack.items)) == B.n)
    yield 'empty_batch_has_no_keys', Forall(lambda k: implies(B.n == 0, b_not(B.keys.has(k))))
    yield 'batch_keys_are_popped_loose_keys', Forall(lambda k: implies(B.keys.has(k), b_and(W.R.has(k), b_not(R.has(k)))))

    def batch_conseq(k):
        bt = B.table
        off, ln, sz, comp = bt.col('offset', k), bt.col('length', k), bt.col('size', k), bt.col('compressed', k)
        stored = logical.slice(off, off + ln)
        content = EM.dec(comp, stored)
        return b_and(
            bt.col('pack_id', k) == last, off >= len_lock, ln >= 0, off + ln <= logical.length(),
            implies(comp, b_and(EM.zvalid(stored), ln > 0)), EM.H(h, content) == SStr.of(k), content.length() == sz,
            implies(b_not(comp), ln == sz))

    def batch_cases(k):
        newest = vc.ghost.get('$newest_key')
        if newest is None:
            return [('any', SBool.of(True))]
        old_b = vc.ghost['$batch_before_append']
        same = SStr.of(k) == SStr.of(newest)
        return [('the_object_just_appended', b_and(same, b_not(old_b.keys.has(newest))), SStr.of(newest)),
                ('a_key_appended_again_first_row_wins', b_and(same, old_b.keys.has(newest)), SStr.of(newest)),
                ('an_earlier_object', SStr.of(k) != SStr.of(newest))]
    yield 'batch_rows_designate_what_was_appended', ForallCases(lambda k: B.keys.has(k), batch_cases, batch_conseq)
    yield 'descriptors', SBool.of([f.num for f in w.open_fds if f is not ph.fdrec] == G(vc, '$fds0'))


def _pal_havoc_inner(vc, L):
    c = L.self
    w = vc.world
    ph = L.pack_handle
    W = vc.ghost['$with']
    L.loose_objects.s = SSet.fresh('remaining')
    L.obj_dicts = SQL.batch_list(SQL.RowBatch.fresh('batch'))
    L.obj_dicts.g['batch'].fields = {'hashkey', 'pack_id', 'offset', 'compressed', 'size', 'length'}
    L.packed_in_current_pack = keys_list(SSet.fresh('cleanup'), 'cleanup')
    c.f['_current_pack_id'] = SInt.fresh('cached_pack_id')
    w.idata = W.st.idata
    CW.split_pack_handle(vc, ph, W.data_lock, b'', SBytes.fresh('appended'))


class PackAllLoose(CUnit):
    fn = 'container:Container.pack_all_loose'
    props = ('C05', 'C06', 'C03', 'C02', 'C09', 'C10', 'C13', 'C01')
    allowed_exc = ('InconsistentContent',)
    timeout_ms = 8000
    parallel = True
    full = False
    variants = 'all'
    tier = 'thorough'
    # Windows: a loose file that is still being written cannot be opened (PermissionError); the packer skips it
    profiles = [{'name': 'posix', 'os.name': 'posix'}, {'name': 'windows', 'os.name': 'nt', 'sharing_violations': True}]
    loops = {
        0: Loop(0, _pal_loop_chunks, havoc=_pal_havoc_existing, fingerprint='chunk in chunk_iterator(loose_objects, size=self._IN_SQL_MAX_LENGTH)'),
        1: Loop(1, _pal_loop_rows, havoc=_pal_havoc_existing, fingerprint='res in session.execute(stmt)'),
        2: Loop(2, _pal_loop_where, havoc=_pal_havoc_existing),
        3: Loop(3, _pal_loop_outer, havoc=_pal_havoc_outer, fingerprint='loose_objects'),
        4: Loop(4, _pal_loop_inner, havoc=_pal_havoc_inner, fingerprint='loose_objects'),
    }

    def make(self, vc, I):
        w = mk_world(vc)
        c = mk_container(vc, I, w, session='open', hash_types=('sha256',))
        db = SQL.db_of_world(w, vc)
        cm = I.prog.classes['utils:CompressMode'].attrs
        if self.variants == 'all':
            which = vc.choose(5, label='compress')
            compress = vc.fresh_bool('compress') if which == 0 else cm[('NO', 'YES', 'KEEP', 'AUTO')[which - 1]]
            validate = vc.fresh_bool('validate_objects')
        else:
            # every-change variant: compress given as a bool (both values), objects validated (the default)
            compress, validate = vc.fresh_bool('compress'), True
        a = NS(self=c, compress=compress, validate_objects=validate, do_fsync=vc.fresh_bool('do_fsync'),
               callback=None, clean_loose_per_pack=vc.fresh_bool('clean_loose_per_pack'))
        return a

    def pre(self, vc, a):
        w, c = vc.world, a.self
        db = SQL.db_of_world(w, vc)
        yield from container_wf(vc, w, c, db.table)
        cur_ = c.f['_current_pack_id']
        if cur_ is not None:
            yield 'cached_pack_id_nonneg', SInt.of(cur_) >= 0
        fw = FS.snap(w)
        yield 'no_stale_lock', Forall(lambda i: fw.inode_at(lock_pid(c, i)) == 0, sort='pack')

    def snapshot(self, vc, a):
        w, c = vc.world, a.self
        db = SQL.db_of_world(w, vc)
        vc.ghost['$T0'] = db.table
        vc.ghost['$ent0'], vc.ghost['$idata0'], vc.ghost['$isync0'] = w.ent, w.idata, w.isync
        vc.ghost['$next_ino0'], vc.ghost['$dirs0'] = w.next_ino, w.dirs
        vc.ghost['$fds0'] = [f.num for f in w.open_fds]
        vc.ghost['$session'] = c.f['_operation_session']
        vc.ghost['$container'] = c
        vc.ghost['$clean_container'] = c
        vc.ghost['$args'] = a
        vc.ghost['$full'] = self.full
        vc.env_hook = pal_hook
        return NS(T=db.table, ent=w.ent, idata=w.idata, fds=[f.num for f in w.open_fds])

    def post(self, vc, a, o, ret):
        c = a.self
        st = pal_state(vc, c)
        yield 'no_descriptor_leaked', SBool.of(st.fds == o.fds)
        yield 'no_lock_left', Forall(lambda i: sel(st.ent, lock_pid(c, i)) == 0, sort='pack')
        if self.full:
            for nm, f in pal_frame(vc, c, st, a):
                yield nm, f

    def exc(self, vc, a, o, e):
        c = a.self
        st = pal_state(vc, c)
        yield 'raises_only_for_a_loose_file_that_does_not_match_its_name', SBool.of(e.cls.name == 'InconsistentContent') & SBool.of(a.validate_objects)
        yield 'no_lock_left', Forall(lambda i: sel(st.ent, lock_pid(c, i)) == 0, sort='pack')
        yield 'index_only_grows', Forall(lambda k: implies(o.T.has(k), st.T.same_row(o.T, k)))


def pal_hook(I, tag, payload):
    """Effect-point obligations of pack_all_loose (C05 / C06 / C03)."""
    vc = I.vc
    c = vc.ghost.get('$container')
    a = vc.ghost.get('$args')
    w = vc.world
    if tag == 'pre_sql_commit':
        before, after = payload['before'], payload['after']
        vc.check('commit:existing_index_rows_kept', Forall(lambda k: implies(before.has(k), after.same_row(before, k))))
        vc.check('commit:published_rows_designate_complete_objects_on_disk',
                 Forall(lambda k: implies(b_and(after.has(k), b_not(before.has(k))), row_ok(w, after, c, k))))
        vc.check('commit:published_rows_are_durable_when_fsync_is_on',
                 Forall(lambda k: implies(b_and(SBool.of(a.do_fsync), after.has(k), b_not(before.has(k))),
                                          row_ok(w, after, c, k, synced=True))))
        vc.check('commit:no_pack_handle_still_open', SBool.of(not any(
            isinstance(getattr(f, 'ino', None), SInt) and f.what == 'file' and getattr(f, 'writer', False) for f in w.open_fds)))
        W = vc.ghost.get('$with')
        if W is not None:
            vc.check('commit:new_rows_lie_beyond_the_previous_end_of_the_pack',
                     Forall(lambda k: implies(b_and(after.has(k), b_not(before.has(k))),
                                              after.col('offset', k) >= W.data_lock.length())))
    elif tag == 'pre_remove':
        remove_hook(I, tag, payload)


class PackAllLooseFrame(PackAllLoose):
    """The same function with the full frame invariant (C02 / C03): every index row, old and new, designates its object
    after the call; loose files disappear only when indexed; pack files only grow.  Expensive: thorough tier."""
    mode = 'frame'
    props = ('C02', 'C03', 'C13')
    full = True
    tier = 'thorough'
    verify_only = True
    timeout_ms = 20000


class PackAllLooseQuick(PackAllLoose):
    """The every-change subset of the parameter space (compress as a bool, validate_objects=True; do_fsync and
    clean_loose_per_pack arbitrary). The complete parameter space is the thorough-tier unit."""
    mode = 'defaults'
    variants = 'bool'
    tier = 'quick'
    profiles = None
    props = ('C05', 'C06')          # every-change runs: only under the two crash properties (cost: ~8 minutes on 14 cores)
    verify_only = True


UNITS += [PackAllLooseQuick(), PackAllLoose(), PackAllLooseFrame()]
