"""Contract for Container._get_objects_stream_meta_generator in metadata mode (with_streams=False), the engine behind
has_objects / get_objects_meta / get_object_meta (C02, C08, C16, and the metadata half of C01/C10):

  * every yielded item is for a requested key, no key is reported twice;
  * a key reported as packed carries exactly the columns of its index row (size, pack_id, compressed, offset, length) --
    whichever lookup strategy (chunked IN queries / full ordered scan) found it;
  * a key reported as loose has its loose file, with the file's size; a key reported missing is neither indexed (in the
    index as it is AFTER the loose files were looked for: the session is refreshed before the second lookup) nor loose;
  * every requested key is reported (unless missing and skip_if_missing).
"""
import z3

from .common import *
from .cmodel import *
from . import helpers as HP
from pyvc import sqlmodel as SQL
from pyvc.interp import NamedTupleVal
from pyvc.values import Unsupported

DEPENDS = ['helpers', 'streams']
FIELDS = ('hashkey', 'offset', 'length', 'compressed', 'size')


class IntSet:
    def __init__(self, t=None):
        self.t = t if t is not None else z3.EmptySet(z3.IntSort())

    @staticmethod
    def fresh(hint='I'):
        return IntSet(z3.Const(EM.fresh_name(hint), z3.SetSort(z3.IntSort())))

    def has(self, i):
        return SBool(z3.IsMember(SInt.of(i).t, self.t))

    def add(self, i):
        return IntSet(z3.SetAdd(self.t, SInt.of(i).t))


class PackMap:
    """`packs = defaultdict(list)`: pack id -> list of ObjQueryResults. Ghost: a RowBatch keyed by hashkey holding exactly
    the fields the code put into the named tuples (so a wrong column order shows), plus the pack id used as dict key."""

    def __init__(self):
        self.batch = SQL.RowBatch.empty()

    @staticmethod
    def fresh(hint='found'):
        m = PackMap()
        m.batch = SQL.RowBatch.fresh(hint)
        return m

    def sym_getitem(self, I, pack_id):
        return PackBucket(self, pack_id)

    def sym_getattr(self, I, name):
        if name == 'items':
            return EM.OMethod(lambda s, I_: PackItems(s), self)
        raise Unsupported(f'packs.{name}')

    def keys(self):
        return self.batch.keys

    def row(self, k):
        t = self.batch.table
        return {f: (SStr.of(k) if f == 'hashkey' else t.col(f, k)) for f in FIELDS + ('pack_id',)}


class PackBucket:
    def __init__(self, m, pack_id):
        self.m, self.pack_id = m, pack_id

    def sym_getattr(self, I, name):
        if name == 'append':
            return EM.OMethod(PackBucket.m_append, self)
        raise Unsupported(f'packs[...].{name}')

    def m_append(self, I, nt):
        if not isinstance(nt, NamedTupleVal) or tuple(nt.cls.fields) != FIELDS:
            raise Unsupported('packs[...] gets something else than an ObjQueryResults')
        d = MDict([(f, v) for f, v in zip(nt.cls.fields, nt.values)] + [('pack_id', self.pack_id)])
        self.m.batch = self.m.batch.add(I, d)
        return None


class PackItems:
    """packs.items(): one (pack id, rows of that pack) pair per pack id that has rows."""

    def __init__(self, m):
        self.m = m

    def iter_model(self, I):
        return _PackItemsIter(I, self.m)


class _PackItemsIter:
    def __init__(self, I, m):
        self.I, self.m = I, m

    def start(self, vc):
        return {'done': IntSet(), 'map': self.m}

    def havoc(self, vc, g):
        return dict(g, done=IntSet.fresh('packs_done'))

    def step(self, vc, g):
        m = self.m
        b = m.batch
        wk = vc.key(SStr.fresh('row_of_pack'))
        p = b.table.col('pack_id', wk)
        vc.assume(b.keys.has(wk))
        vc.assume(b_not(g['done'].has(p)))
        ob = vc.ghost['$objq']
        return (p, PackRows(m, p, ob)), dict(g, done=g['done'].add(p), pack=p)

    def finish(self, vc, g):
        b, done = self.m.batch, g['done']
        vc.assume(Forall(lambda k: implies(b.keys.has(k), done.has(b.table.col('pack_id', k)))))


class PackRows:
    """The list of ObjQueryResults of one pack (sorted in place by the code; order is irrelevant to the contract)."""

    def __init__(self, m, p, ntcls):
        self.m, self.p, self.ntcls = m, p, ntcls

    def members(self):
        b, p = self.m.batch, self.p
        return lambda k: b_and(b.keys.has(k), b.table.col('pack_id', k) == p)

    def sym_getattr(self, I, name):
        if name == 'sort':
            return EM.OMethod(lambda s, I_, key=None, reverse=False: None, self)
        raise Unsupported(f'pack_metadata.{name}')

    def sym_comprehension(self, I, n, g, env):
        # only `obj.hashkey for obj in pack_metadata` occurs
        import ast
        if ast.unparse(n.elt) == f'{g.target.id}.hashkey' and not g.ifs:
            s = SSet.fresh('keys_of_pack')
            mem = self.members()
            I.vc.assume(Forall(lambda k: s.has(k) == mem(k)))
            return MList(None, elems=s, n=SInt.fresh('nkeys'))
        raise Unsupported('comprehension over pack_metadata')

    def iter_model(self, I):
        return _PackRowsIter(I, self)


class _PackRowsIter:
    def __init__(self, I, rows):
        self.I, self.rows = I, rows

    def start(self, vc):
        return {'done': SSet.empty(), 'rows': self.rows}

    def havoc(self, vc, g):
        d = SSet.fresh('rows_done')
        mem = self.rows.members()
        vc.assume(Forall(lambda k: implies(d.has(k), mem(k))))
        return dict(g, done=d)

    def step(self, vc, g):
        r = self.rows
        k = vc.key(SStr.fresh('meta_key'))
        vc.assume(r.members()(k))
        vc.assume(b_not(g['done'].has(k)))
        row = r.m.row(k)
        nt = NamedTupleVal(r.ntcls, [row[f] for f in FIELDS])
        return nt, dict(g, done=g['done'].add(k), key=k)

    def finish(self, vc, g):
        mem, done = self.rows.members(), g['done']
        vc.assume(Forall(lambda k: implies(mem(k), done.has(k))))


class DefaultDictOfLists:
    def sym_call(self, I, args, kwargs):
        return PackMap()


# ----------------------------------------------------------------------------- ghost accessors
def G(vc, n):
    return vc.ghost[n]


def found_matches_index(m, T):
    """Every collected named tuple carries exactly the columns of its index row in T."""
    b = m.batch
    return Forall(lambda k: implies(b.keys.has(k), b_and(
        T.has(k), *[b.table.col(f, k) == T.col(f, k) for f in ('offset', 'length', 'compressed', 'size', 'pack_id')])))


def phase_frame(vc, L, phase):
    c = L.self
    s = c.f['_operation_session']
    db = SQL.db_of_world(vc.world, vc)
    T = G(vc, '$T%d' % phase)
    yield 'lookup_reads_one_snapshot', SBool.of(s is not None and (s.view is None or s.view is T) and not s.dirty)
    yield 'world_untouched', SBool.of(vc.world.ent is G(vc, '$ent0') and vc.world.idata is G(vc, '$idata0') and db.table is G(vc, '$Tc'))
    yield 'nothing_reported_yet' if phase == 1 else 'reported_set_unchanged_by_the_lookup', SBool.of(G(vc, '$emitted') is G(vc, '$emitted_at_lookup%d' % phase))


def phase_entry(vc, L, phase):
    if phase == 2:
        vc.ghost.setdefault('$asked2', L.loose_not_found.s)
        vc.ghost.setdefault('$second_lookup', True)
        vc.ghost.setdefault('$emitted_at_lookup2', vc.ghost['$emitted'])


def lookup_chunks_inv(phase, asked_name):
    def inv(vc, L):
        phase_entry(vc, L, phase)
        m, T = L.packs, G(vc, '$T%d' % phase)
        asked = getattr(L, asked_name).s
        done = L.done
        vc.ghost['$chunks_done'] = done
        vc.ghost['$keys_at_chunk'] = m.keys()
        b = m.batch
        yield 'collected_rows_are_index_rows', found_matches_index(m, T)
        yield 'collected_exactly_the_indexed_keys_of_the_chunks_done', Forall(lambda k: b.keys.has(k) == b_and(done.has(k), T.has(k)))
        yield 'no_duplicate_rows', b_not(b.dup)
        yield 'requested_set_untouched', asked == G(vc, '$asked%d' % phase)
        yield from phase_frame(vc, L, phase)
    return inv


def lookup_rows_inv(phase, asked_name):
    def inv(vc, L):
        m, T = L.packs, G(vc, '$T%d' % phase)
        done = L.done
        K0 = G(vc, '$keys_at_chunk')
        b = m.batch
        yield 'collected_rows_are_index_rows', found_matches_index(m, T)
        yield 'collected_so_far', Forall(lambda k: b.keys.has(k) == b_or(K0.has(k), done.has(k)))
        yield 'no_duplicate_rows', b_not(b.dup)
        yield 'requested_set_untouched', getattr(L, asked_name).s == G(vc, '$asked%d' % phase)
        yield from phase_frame(vc, L, phase)
    return inv


def lookup_scan_inv(phase, asked_name):
    def inv(vc, L):
        phase_entry(vc, L, phase)
        m, T = L.packs, G(vc, '$T%d' % phase)
        asked = G(vc, '$asked%d' % phase)
        done = L.done
        b = m.batch
        yield 'collected_rows_are_index_rows', found_matches_index(m, T)
        yield 'collected_exactly_the_requested_indexed_keys_classified', Forall(lambda k: b.keys.has(k) == b_and(done.has(k), T.has(k), asked.has(k)))
        yield 'no_duplicate_rows', b_not(b.dup)
        yield 'requested_set_untouched', getattr(L, asked_name).s == asked
        yield from phase_frame(vc, L, phase)
    return inv


def havoc_lookup(vc, L):
    L.packs = PackMap.fresh('found')
    L.packs.batch.fields = set(FIELDS) | {'pack_id'}


# ---- reporting loops
def report_packs_inv(phase):
    def inv(vc, L):
        phase_entry(vc, L, phase)
        m, T = L.packs, G(vc, '$T%d' % phase)
        E, E0 = G(vc, '$emitted'), G(vc, '$emitted_at_lookup%d' % phase)
        b = m.batch
        pdone = L.done
        asked = G(vc, '$asked%d' % phase)
        yield 'collected_rows_are_index_rows', found_matches_index(m, T)
        yield 'collected_exactly_the_requested_indexed_keys', Forall(lambda k: b.keys.has(k) == b_and(T.has(k), asked.has(k)))
        yield 'reported_are_the_rows_of_the_packs_done', Forall(lambda k: E.has(k) == b_or(E0.has(k), b_and(b.keys.has(k), pdone.has(b.table.col('pack_id', k)))))
        if phase == 1:
            hp = L.hashkeys_in_packs.s
            yield 'keys_found_in_packs_so_far', Forall(lambda k: hp.has(k) == b_and(b.keys.has(k), pdone.has(b.table.col('pack_id', k))))
        else:
            rn, lnf = L.really_not_found.s, L.loose_not_found.s
            yield 'not_found_so_far', Forall(lambda k: rn.has(k) == b_and(lnf.has(k), b_not(b_and(b.keys.has(k), pdone.has(b.table.col('pack_id', k))))))
    return inv


def report_rows_inv(phase):
    def inv(vc, L):
        m, T = L.packs, G(vc, '$T%d' % phase)
        E = G(vc, '$emitted')
        if '$emitted_at_pack' not in vc.ghost:
            vc.ghost['$emitted_at_pack'] = E
        Ep = vc.ghost['$emitted_at_pack']
        done = L.done
        yield 'collected_rows_are_index_rows', found_matches_index(m, T)
        yield 'reported_so_far', Forall(lambda k: E.has(k) == b_or(Ep.has(k), done.has(k)))
    return inv


def havoc_report(vc, L):
    vc.ghost['$emitted'] = SSet.fresh('emitted')
    if L.has('hashkeys_in_packs') and not L.has('really_not_found'):
        L.hashkeys_in_packs.s = SSet.fresh('in_packs')
    if L.has('really_not_found'):
        L.really_not_found.s = SSet.fresh('really_not_found')


def havoc_report_rows(vc, L):
    vc.ghost['$emitted'] = SSet.fresh('emitted')


def loose_inv(vc, L):
    c = L.self
    vc.ghost.setdefault('$emitted_after_packs1', G(vc, '$emitted'))
    vc.ghost['$loose_done'] = True
    E, E1 = G(vc, '$emitted'), G(vc, '$emitted_after_packs1')
    done = L.done
    lnf = L.loose_not_found.s
    ent = G(vc, '$ent0')
    yield 'reported_so_far', Forall(lambda k: E.has(k) == b_or(E1.has(k), b_and(done.has(k), SInt(z3.Select(ent, loose_pid(c, k).t)) != 0)))
    yield 'not_found_so_far', Forall(lambda k: lnf.has(k) == b_and(done.has(k), SInt(z3.Select(ent, loose_pid(c, k).t)) == 0))


def havoc_loose(vc, L):
    vc.ghost['$emitted'] = SSet.fresh('emitted')
    L.loose_not_found.s = SSet.fresh('loose_not_found')


def missing_inv(vc, L):
    E = G(vc, '$emitted')
    if '$emitted_before_missing' not in vc.ghost:
        vc.ghost['$emitted_before_missing'] = E
    E2 = vc.ghost['$emitted_before_missing']
    done = L.done
    yield 'reported_so_far', Forall(lambda k: E.has(k) == b_or(E2.has(k), done.has(k)))


class MetaGenerator(CUnit):
    fn = 'container:Container._get_objects_stream_meta_generator'
    mode = 'meta'
    sessions = (0, 1, 2)        # operation session before the call: none / open and clean / open with a stale pinned snapshot
    props = ('C02', 'C08', 'C16', 'C01', 'C10')
    allowed_exc = ()
    timeout_ms = 8000
    parallel = True
    verify_only = True
    loops = {
        0: Loop(0, lookup_chunks_inv(1, 'hashkeys_set'), havoc=havoc_lookup),
        1: Loop(1, lookup_rows_inv(1, 'hashkeys_set'), havoc=havoc_lookup),
        2: Loop(2, lookup_scan_inv(1, 'hashkeys_set'), havoc=havoc_lookup),
        3: Loop(3, report_packs_inv(1), havoc=havoc_report),
        4: Loop(4, report_rows_inv(1), havoc=havoc_report_rows),
        5: Loop(5, loose_inv, havoc=havoc_loose),
        6: Loop(6, lookup_chunks_inv(2, 'loose_not_found'), havoc=havoc_lookup),
        7: Loop(7, lookup_rows_inv(2, 'loose_not_found'), havoc=havoc_lookup),
        8: Loop(8, lookup_scan_inv(2, 'loose_not_found'), havoc=havoc_lookup),
        9: Loop(9, report_packs_inv(2), havoc=havoc_report),
        10: Loop(10, report_rows_inv(2), havoc=havoc_report_rows),
        11: Loop(11, missing_inv, havoc=havoc_report_rows),
    }

    def configure(self, vc, I):
        vc.defaultdict_factory = DefaultDictOfLists()

    def on_path_start(self, vc, I):
        vc.ghost['$objq'] = I.prog.modules['container'].ns['ObjQueryResults']

    def make(self, vc, I):
        w = mk_world(vc)
        which = self.sessions[vc.choose(len(self.sessions), label='session_before_the_call')] if len(self.sessions) > 1 else self.sessions[0]
        c = mk_container(vc, I, w, session='open' if which else 'none', hash_types=('sha256',))
        if which == 2:
            c.f['_operation_session'].view = SQL.Table.fresh('stale')     # pinned before other handles committed
        cls = I.prog.classes['container:Container']
        cls.attrs['_IN_SQL_MAX_LENGTH'] = SInt.fresh('IN_SQL_MAX')
        cls.attrs['_MAX_CHUNK_ITERATE_LENGTH'] = SInt.fresh('MAX_CHUNK_ITERATE')
        vc.assume(b_and(SInt.of(cls.attrs['_IN_SQL_MAX_LENGTH']) >= 1, SInt.of(cls.attrs['_MAX_CHUNK_ITERATE_LENGTH']) >= 0))
        asked = SSet.fresh('requested')
        return NS(self=c, hashkeys=MSet(asked), skip_if_missing=vc.fresh_bool('skip_if_missing'), with_streams=False, asked=asked)

    def pre(self, vc, a):
        w, c = vc.world, a.self
        yield from CWL.layout_inv(vc, w, c)
        s = c.f['_operation_session']
        Tc = SQL.db_of_world(w, vc).table
        yield 'index_rows_name_real_packs', Forall(lambda k: implies(Tc.has(k), Tc.col('pack_id', k) >= 0))
        if s is not None and s.view is not None:
            V = s.view
            # histories of C08: other handles only add loose objects, pack them and clean: the index only grows, and a loose
            # file is removed only after its key was committed -- so whatever this session pinned earlier is a sub-index
            yield 'pinned_snapshot_is_an_earlier_index', Forall(lambda k: implies(V.has(k), Tc.same_row(V, k)))

    def snapshot(self, vc, a):
        w, c = vc.world, a.self
        s = c.f['_operation_session']
        Tc = SQL.db_of_world(w, vc).table
        vc.ghost['$Tc'] = Tc
        vc.ghost['$T1'] = s.view if (s is not None and s.view is not None) else Tc
        vc.ghost['$T2'] = Tc
        vc.ghost['$ent0'], vc.ghost['$idata0'] = w.ent, w.idata
        vc.ghost['$asked1'] = a.asked
        vc.ghost['$emitted'] = SSet.empty()
        vc.ghost['$emitted_at_lookup1'] = vc.ghost['$emitted']
        vc.ghost['$container'] = c
        vc.ghost['$args'] = a
        vc.env_hook = mg_hook
        return NS(Tc=Tc, T1=vc.ghost['$T1'], ent=w.ent, idata=w.idata, asked=a.asked)

    def on_yield(self, vc, a, o, item):
        c = a.self
        E = G(vc, '$emitted')
        key, meta = item
        k = SStr.of(key)
        vc.key(k)
        yield 'reported_key_was_requested', o.asked.has(k)
        yield 'no_key_is_reported_twice', b_not(E.has(k))
        typ = meta.f['type'].name
        fw = FS.snap(vc.world)
        if typ == 'PACKED':
            T = G(vc, '$T2') if '$second_lookup' in vc.ghost else o.T1
            yield 'packed_item_is_an_index_row', T.has(k)
            for f, col in (('size', 'size'), ('pack_id', 'pack_id'), ('pack_compressed', 'compressed'), ('pack_offset', 'offset'), ('pack_length', 'length')):
                yield f'packed_meta_{f}_is_the_index_column', meta.f[f] == T.col(col, k) if col != 'compressed' else SBool.of(meta.f[f]) == T.col(col, k)
        elif typ == 'LOOSE':
            ino = fw.inode_at(loose_pid(c, k))
            yield 'loose_item_has_its_file', ino != 0
            yield 'loose_size_is_the_file_size', SInt.of(meta.f['size']) == fw.data(ino).length()
        else:
            yield 'missing_only_when_asked_for', b_not(SBool.of(a.skip_if_missing))
            yield 'missing_item_is_neither_indexed_now_nor_loose', b_and(b_not(o.Tc.has(k)), fw.inode_at(loose_pid(c, k)) == 0)
        vc.ghost['$emitted'] = E.add(k)

    def post(self, vc, a, o, ret):
        c = a.self
        E = G(vc, '$emitted')
        fw = FS.snap(vc.world)
        present = lambda k: b_or(o.Tc.has(k), fw.inode_at(loose_pid(c, k)) != 0)
        yield 'every_requested_present_key_is_reported', Forall(lambda k: implies(b_and(o.asked.has(k), present(k)), E.has(k)))
        yield 'every_requested_key_is_reported_unless_skipped', Forall(lambda k: implies(b_and(o.asked.has(k), b_not(SBool.of(a.skip_if_missing))), E.has(k)))


I_OBJQ = [None]


def mg_hook(I, tag, payload):
    vc = I.vc
    if tag == 'sql_close' or (tag == 'sql_select' and '$loose_done' in vc.ghost and '$second_lookup' not in vc.ghost):
        # from here on the second lookup (after the loose files were looked for) is running
        vc.ghost['$second_lookup'] = True
        vc.ghost['$emitted_at_lookup2'] = vc.ghost['$emitted']
    if tag == 'sql_select' and '$second_lookup' in vc.ghost:
        s = payload['session']
        db = SQL.db_of_world(vc.world, vc)
        vc.check('select:second_lookup_reads_the_index_as_it_is_after_the_loose_files_were_missed', SBool.of(s.view is db.table))


# ============================================================================= the same generator with streams
class Untouchable:
    """Value of a local that every loop body assigns before reading it: the invariants say nothing about it, and any use
    (attribute, truth value, call) makes the unit undecided instead of letting an arbitrary choice through."""

    def sym_getattr(self, I, name):
        raise Unsupported(f'a local not described by the loop invariant is used (.{name})')

    def sym_truth(self, vc):
        raise Unsupported('a local not described by the loop invariant is used (truth value)')

    def __repr__(self):
        return '<local not described by the invariant>'


UNTOUCHABLE = Untouchable()


def with_streams(vc):
    return bool(G(vc, '$args').with_streams)


def fds_now(vc):
    # descriptors of regular files (the SQLite connection of the operation session is the handle's, released by close())
    return [f.num for f in vc.world.open_fds if f.what != 'sqlite']


def closed_or_none(f):
    return f is None or (isinstance(f, EM.FileObj) and f.closed is True)


def closed_file(vc):
    w = vc.world
    f = EM.FileObj(w, 0, 'rb')
    w.close_fd(f.fdrec)
    f.closed = True
    return f


def between_files(inv):
    """Loop heads between two files (pack loops, loose loop): the previous file is closed, nothing but the caller's
    descriptors is open."""
    def wrapped(vc, L):
        yield from inv(vc, L)
        if with_streams(vc):
            yield 'file_of_the_previous_item_closed', SBool.of(closed_or_none(L.last_open_file))
            yield 'only_the_callers_descriptors_open', SBool.of(fds_now(vc) == G(vc, '$fds0'))
    return wrapped


def inside_pack(inv):
    """Head of the loop over the rows of one pack: exactly the pack file of this iteration is open for reading."""
    def wrapped(vc, L):
        yield from inv(vc, L)
        if with_streams(vc):
            f, c = L.last_open_file, L.self
            ok = isinstance(f, EM.FileObj) and f.closed is False and f.mode == 'rb'
            yield 'pack_file_open_for_reading', SBool.of(ok)
            if ok:
                fw = FS.snap(vc.world)
                yield 'open_file_is_the_pack_being_reported', f.ino == fw.inode_at(pack_pid(c, SInt.of(L.pack_int_id)))
                yield 'file_position_nonneg', f.kpos >= 0
                yield 'exactly_one_file_open', SBool.of(fds_now(vc) == G(vc, '$fds0') + [f.fdrec.num])
    return wrapped


def havoc_between(base, lazy=True):
    def h(vc, L):
        base(vc, L)
        if with_streams(vc):
            L.last_open_file = None if vc.choose(2, label='previous_file_none_or_closed') == 0 else closed_file(vc)
            if lazy:
                L.lazy_loose_stream = UNTOUCHABLE
                if L.has('obj_reader'):
                    L.obj_reader = UNTOUCHABLE
    return h


def havoc_inside_pack(vc, L):
    havoc_report_rows(vc, L)
    if with_streams(vc):
        f = L.last_open_file
        f.kpos = SInt.fresh('kpos_left_by_the_consumer')
        vc.assume(f.kpos >= 0)
        L.lazy_loose_stream = UNTOUCHABLE
        if L.has('obj_reader'):
            L.obj_reader = UNTOUCHABLE


class StreamGenerator(MetaGenerator):
    """with_streams=True (get_object_stream[_and_meta], get_objects_stream_and_meta, get_object(s)_content): on top of the
    metadata clauses, every yielded stream is, in the abstraction used by the stream contracts of streams.py (which prove
    that read/seek/tell refine an in-memory file over `view.content`), a stream in its initial state whose content has the
    reported key as digest and the reported size -- C01 read side and the composition step of C07; the lazily opened loose
    copy handed to the decompresser is the copy of the SAME key; exactly one file is open at every yield, the file of the
    previous item is closed before the next is opened, and nothing is left open when the generator finishes OR is
    abandoned by its consumer (C18).

    Consumer model between two items: it moves the position of the yielded stream arbitrarily, may have made the
    decompresser switch to its loose copy (descriptor of the lazy stream open), may stop iterating (generator closed)."""
    mode = 'streams'
    props = ('C01', 'C07', 'C18')
    tier = 'quick'              # about 4 minutes on 15 cores; proved in the every-change tier under C07 and C18 (memoised)
    quick_props = ('C07', 'C18')
    sessions = (2,)             # every-change variant: the most general session state (a pinned snapshot that is any
                                # sub-index of the committed one, incl. the committed one itself); the lookups under the
                                # other two states are covered by the @meta unit, all three by the thorough variant below
    inline = ACCESSORS + ('utils:ZlibLikeBaseStreamDecompresser.__init__', 'utils:ZlibStreamDecompresser.decompressobj_class',
                          'utils:ZlibStreamDecompresser.decompress_error', 'utils:LazyLooseStream.closed',
                          'utils:LazyLooseStream.close_stream')
    loops = {
        0: Loop(0, lookup_chunks_inv(1, 'hashkeys_set'), havoc=havoc_lookup),
        1: Loop(1, lookup_rows_inv(1, 'hashkeys_set'), havoc=havoc_lookup),
        2: Loop(2, lookup_scan_inv(1, 'hashkeys_set'), havoc=havoc_lookup),
        3: Loop(3, between_files(report_packs_inv(1)), havoc=havoc_between(havoc_report)),
        4: Loop(4, inside_pack(report_rows_inv(1)), havoc=havoc_inside_pack),
        5: Loop(5, between_files(loose_inv), havoc=havoc_between(havoc_loose, lazy=False)),
        6: Loop(6, lookup_chunks_inv(2, 'loose_not_found'), havoc=havoc_lookup),
        7: Loop(7, lookup_rows_inv(2, 'loose_not_found'), havoc=havoc_lookup),
        8: Loop(8, lookup_scan_inv(2, 'loose_not_found'), havoc=havoc_lookup),
        9: Loop(9, between_files(report_packs_inv(2)), havoc=havoc_between(havoc_report)),
        10: Loop(10, inside_pack(report_rows_inv(2)), havoc=havoc_inside_pack),
        11: Loop(11, between_files(missing_inv), havoc=havoc_report_rows),
    }

    def make(self, vc, I):
        a = MetaGenerator.make(self, vc, I)
        a.with_streams = True
        return a

    def pre(self, vc, a):
        yield from MetaGenerator.pre(self, vc, a)
        w, c = vc.world, a.self
        Tc = SQL.db_of_world(w, vc).table
        from .cpack import container_wf
        for n, f in container_wf(vc, w, c, Tc):
            if n not in ('loose_paths_are_files', 'sandbox_paths_are_files'):
                yield n, f

    def snapshot(self, vc, a):
        o = MetaGenerator.snapshot(self, vc, a)
        o.fds = fds_now(vc)
        vc.ghost['$fds0'] = o.fds
        return o

    def drive_generator(self, vc, I, a, o, gen):
        while True:
            try:
                item = next(gen.pygen)
            except StopIteration:
                break
            for name, fml in self.on_yield(vc, a, o, item):
                vc.check('yield:' + name, fml)
            if self.consume(vc, I, a, item) == 'abandon':
                vc.ghost['$abandoned'] = True
                gen.pygen.close()
                break
        return None

    def consume(self, vc, I, a, item):
        key, stream, meta = item
        dec = isinstance(stream, PyObj) and stream.cls.name == 'ZlibStreamDecompresser'
        how = vc.choose(3 if dec else 2, label='consumer')
        reader = stream.f['_compressed_stream'] if dec else stream
        fh = reader.f['_fhandle'] if isinstance(reader, PyObj) else reader
        if isinstance(fh, EM.FileObj):
            fh.kpos = SInt.fresh('kpos_left_by_the_consumer')
            vc.assume(fh.kpos >= 0)
        if how == 1:
            return 'abandon'
        if how == 2:
            # the decompresser switched to the re-loosened copy: the lazy stream now holds an open descriptor
            lz = stream.f['_lazy_uncompressed_stream']
            ino = SInt.fresh('inode_of_the_loosened_copy')
            vc.assume(ino > 0)
            lz.f['_stream'] = EM.FileObj(vc.world, ino, 'rb')
        return 'next'

    def on_yield(self, vc, a, o, item):
        from . import streams as ST
        key, stream, meta = item
        yield from MetaGenerator.on_yield(self, vc, a, o, (key, meta))
        c = a.self
        k = SStr.of(key)
        h = c.f['$hash']
        fw = FS.snap(vc.world)
        fds = fds_now(vc)
        typ = meta.f['type'].name
        if typ == 'PACKED':
            T = G(vc, '$T2') if '$second_lookup' in vc.ghost else o.T1
            dec = isinstance(stream, PyObj) and stream.cls.name == 'ZlibStreamDecompresser'
            reader = stream.f['_compressed_stream'] if dec else stream
            ok = isinstance(reader, PyObj) and reader.cls.name == 'PackedObjectReader' and isinstance(reader.f['_fhandle'], EM.FileObj)
            yield 'packed_stream_is_a_bounded_reader_of_a_file', SBool.of(ok)
            if not ok:
                return
            yield 'decompresser_exactly_for_compressed_rows', T.col('compressed', k) == SBool.of(dec)
            v = ST.por_view(reader)
            fh = v.fh
            yield 'reader_is_over_the_open_pack_file_of_the_row', b_and(
                SBool.of(fh.closed is False and fh.mode == 'rb'), fh.ino == fw.inode_at(pack_pid(c, T.col('pack_id', k))))
            yield 'reader_covers_exactly_the_byte_range_of_the_row', b_and(
                v.off == T.col('offset', k), v.len == T.col('length', k), v.pos == 0)
            for n, f in ST.por_rep(reader):
                yield 'reader:' + n, f
            content = v.content
            if dec:
                for n, f in ST.zd_rep(stream):
                    yield 'decompresser:' + n, f
                zv = ST.zd_view(stream)
                content = zv.content
                yield 'decompresser_in_compressed_mode_at_start', b_and(SBool.of(zv.mode == 'c'), zv.pos == 0)
                lz = stream.f['_lazy_uncompressed_stream']
                lz_ok = isinstance(lz, PyObj) and lz.cls.name == 'LazyLooseStream' and lz.f['_container'] is c and lz.f['_stream'] is None
                yield 'fallback_is_the_unopened_lazy_loose_copy', SBool.of(lz_ok)
                if lz_ok:
                    yield 'fallback_is_the_copy_of_the_same_key', SStr.of(lz.f['_hashkey']) == k
            yield 'stream_content_has_the_reported_key_as_digest', EM.H(h, content) == k
            yield 'stream_content_has_the_reported_size', content.length() == SInt.of(meta.f['size'])
            yield 'exactly_one_file_open', SBool.of(fds == o.fds + [fh.fdrec.num])
        elif typ == 'LOOSE':
            ok = isinstance(stream, EM.FileObj)
            yield 'loose_stream_is_a_file', SBool.of(ok)
            if not ok:
                return
            yield 'loose_stream_is_the_open_loose_file_of_the_key_at_its_start', b_and(
                SBool.of(stream.closed is False and stream.mode == 'rb'), stream.ino == fw.inode_at(loose_pid(c, k)), stream.kpos == 0)
            yield 'stream_content_has_the_reported_key_as_digest', EM.H(h, stream.content()) == k
            yield 'stream_content_has_the_reported_size', stream.content().length() == SInt.of(meta.f['size'])
            yield 'exactly_one_file_open', SBool.of(fds == o.fds + [stream.fdrec.num])
        else:
            yield 'missing_item_has_no_stream', SBool.of(stream is None)
            yield 'no_file_open', SBool.of(fds == o.fds)

    def post(self, vc, a, o, ret):
        yield 'no_descriptor_left_open', SBool.of(fds_now(vc) == o.fds)
        if '$abandoned' not in vc.ghost:
            yield from MetaGenerator.post(self, vc, a, o, ret)


class StreamGeneratorAllSessions(StreamGenerator):
    mode = 'streams_all_sessions'
    tier = 'thorough'           # about 11 minutes on 15 cores
    sessions = (0, 1, 2)


from . import cwrite as CWL
UNITS = CM_UNITS[:1] + HP.HELPER_SUMMARIES + [MetaGenerator(), StreamGenerator(), StreamGeneratorAllSessions()]
