"""Contracts for the validation functions (C12):

  Container._validate_hashkeys_pack(pack_id): for a pack whose indexed ranges are READABLE (inside the file; compressed
  ranges are complete zlib streams -- otherwise the function raises, which is also "not clean"), the lists returned are
  EXACTLY: invalid_hashes = the rows of the pack whose (inflated) bytes do not hash to their key, invalid_sizes = the rows
  whose (inflated) length differs from the recorded size; overlapping only names rows of the pack. Nothing is modified, the
  pack file is closed again.  So a pack with a damaged object is never reported clean, and an undamaged one always is.

The hashing helper compute_hash_and_size is applied to the reader objects through its proved contract (writers.py: over
any stream obeying the read contract) composed with the proved stream contracts (streams.py: PackedObjectReader and the
decompresser obey that contract over `view.content`); the composition step itself is listed as an assumption (E-COMPOSE).
"""
import z3

from .common import *
from .cmodel import *
from . import helpers as HP
from . import streams as ST
from . import cwrite as CWL
from pyvc import sqlmodel as SQL
from pyvc.values import Unsupported

DEPENDS = ['streams', 'helpers']


def G(vc, n):
    return vc.ghost[n]


class HashAnyStream(Unit):
    """compute_hash_and_size applied to a file object / PackedObjectReader / decompresser in a state satisfying its
    representation invariant: digest and length of the rest of its content; the stream is left in an arbitrary state
    satisfying the invariant (at its end)."""
    fn = 'utils:compute_hash_and_size'
    props = ('C12',)
    trusted = True
    note = ('composition (E-COMPOSE): proved for an abstract stream obeying the read contract (writers.py) and the stream '
            'classes are proved to obey that contract (streams.py); applying the one to the other is not re-proved')

    def havoc(self, vc, I, a):
        s = a.stream
        ht = conc(a.hash_type)
        who = f'{vc.unit}:pre[utils:compute_hash_and_size]'
        if isinstance(s, EM.FileObj):
            vc.check(who + ':file_open_for_reading', SBool.of(s.closed is False and s.mode == 'rb'))
            rest = s.content().slice(s.kpos, None)
            s.kpos = s.content().length()
        elif isinstance(s, PyObj) and s.cls.name == 'PackedObjectReader':
            for n, f in ST.por_rep(s):
                vc.check(who + ':reader:' + n, f)
            v = ST.por_view(s)
            rest = v.content.slice(v.pos, None)
            ST.cs_set_pos(s, v.len)
        elif isinstance(s, PyObj) and s.cls.name == 'ZlibStreamDecompresser':
            for n, f in ST.zd_rep(s):
                vc.check(who + ':decompresser:' + n, f)
            v = ST.zd_view(s)
            rest = v.content.slice(v.pos, None)
            ST.zd_havoc(vc, s)
        elif isinstance(s, EM.AbsStream):
            rest = s.content.slice(s.pos, None)
            s.pos = s.content.length()
        else:
            raise Unsupported(f'compute_hash_and_size over {s!r}')
        return (EM.H(ht, rest), rest.length())


def elems(lst):
    if lst.items is not None:
        s = SSet.empty()
        for x in lst.items:
            s = s.add(x)
        return s
    return lst.g['elems']


def content_of(V, data, k):
    """(Inflated) bytes the row of key k (in index view V) designates in pack content `data`."""
    off, ln = V.col('offset', k), V.col('length', k)
    return EM.dec(V.col('compressed', k), data.slice(off, off + ln))


def row_content(vc, k):
    return content_of(G(vc, '$V'), G(vc, '$data'), k)


def in_pack(vc, k):
    T = G(vc, '$V')
    return b_and(T.has(k), T.col('pack_id', k) == G(vc, '$pack'))


def readable_rows(V, data, p):
    def readable(k):
        off, ln, comp = V.col('offset', k), V.col('length', k), V.col('compressed', k)
        return implies(b_and(V.has(k), V.col('pack_id', k) == p),
                       b_and(off >= 0, ln >= 0, off + ln <= data.length(),
                             implies(comp, b_and(EM.zvalid(data.slice(off, off + ln)), ln > 0))))
    return Forall(readable)


def vp_inv(vc, L):
    c = L.self
    live = vc.world
    s = c.f['_operation_session']
    done = L.done
    h = c.f['$hash']
    IH, IS, OV = elems(L.invalid_hashes), elems(L.invalid_sizes), elems(L.overlapping)
    ph = L.pack_handle
    yield 'nothing_modified', SBool.of(live.ent is G(vc, '$ent0') and live.idata is G(vc, '$idata0')
                                       and SQL.db_of_world(live, vc).table is G(vc, '$T') and s is G(vc, '$session')
                                       and s.view is G(vc, '$V') and not s.dirty)
    yield 'pack_file_open_for_reading', SBool.of(isinstance(ph, EM.FileObj) and ph.closed is False and ph.mode == 'rb'
                                                 and ph.ino is G(vc, '$ino')
                                                 and [f.num for f in live.open_fds if f.what != 'sqlite'] == G(vc, '$files') + [ph.fdrec.num])
    yield 'file_position_nonneg', ph.kpos >= 0
    yield 'wrong_digests_so_far', Forall(lambda k: IH.has(k) == b_and(done.has(k), EM.H(h, row_content(vc, k)) != SStr.of(k)))
    yield 'wrong_sizes_so_far', Forall(lambda k: IS.has(k) == b_and(done.has(k), row_content(vc, k).length() != G(vc, '$V').col('size', k)))
    yield 'overlaps_name_rows_visited', Forall(lambda k: implies(OV.has(k), done.has(k)))


def vp_havoc(vc, L):
    for n in ('invalid_hashes', 'invalid_sizes', 'overlapping'):
        setattr(L, n, MList(None, n=SInt.fresh('n_' + n), elems=SSet.fresh(n)))
    ph = L.pack_handle
    ph.kpos = SInt.fresh('kpos')
    vc.assume(ph.kpos >= 0)
    if L.has('obj_reader'):
        from .cread import UNTOUCHABLE
        L.obj_reader = UNTOUCHABLE


class ValidatePack(CUnit):
    fn = 'container:Container._validate_hashkeys_pack'
    props = ('C12',)
    allowed_exc = ()
    timeout_ms = 8000
    parallel = True
    inline = ACCESSORS + ('utils:ZlibLikeBaseStreamDecompresser.__init__', 'utils:ZlibStreamDecompresser.decompressobj_class',
                          'utils:ZlibStreamDecompresser.decompress_error')
    loops = {0: Loop(0, vp_inv, havoc=vp_havoc)}

    def make(self, vc, I):
        w = mk_world(vc)
        which = vc.choose(2, label='session_before_the_call')
        c = mk_container(vc, I, w, session='open', hash_types=('sha256',))
        if which == 1:
            c.f['_operation_session'].view = SQL.Table.fresh('pinned')
        p = SInt.fresh('pack')
        return NS(self=c, pack_id=p, callback=None)

    def _state(self, vc, a):
        w, c = vc.world, a.self
        fw = FS.snap(w)
        s = c.f['_operation_session']
        T = SQL.db_of_world(w, vc).table
        V = s.view if (s is not None and s.view is not None) else T
        p = SInt.of(a.pack_id)
        ino = fw.inode_at(pack_pid(c, p))
        return NS(fw=fw, T=T, V=V, p=p, ino=ino, data=fw.data(ino), s=s)

    def pre(self, vc, a):
        st = self._state(vc, a)
        yield 'no_callback', SBool.of(a.callback is None)
        yield 'pack_id_nonneg', st.p >= 0
        yield 'pack_file_exists', st.ino != 0
        yield 'pack_path_is_a_file', b_not(st.fw.is_dir(pack_pid(a.self, st.p)))
        yield 'indexed_ranges_of_the_pack_are_readable', readable_rows(st.V, st.data, st.p)

    def snapshot(self, vc, a):
        w = vc.world
        st = self._state(vc, a)
        vc.ghost.update({'$T': st.T, '$V': st.V, '$ent0': w.ent, '$idata0': w.idata, '$session': st.s, '$pack': st.p,
                         '$ino': None, '$data': st.data, '$files': [f.num for f in w.open_fds if f.what != 'sqlite']})
        vc.env_hook = vp_hook
        return NS(T=st.T, V=st.V, p=st.p, data=st.data, files=vc.ghost['$files'], ent=w.ent, idata=w.idata)

    def result_clauses(self, c, o, IH, IS, OV):
        h = c.f['$hash']
        V, data, p = o.V, o.data, o.p
        mine = lambda k: b_and(V.has(k), V.col('pack_id', k) == p)
        yield 'invalid_hashes_are_exactly_the_rows_whose_bytes_do_not_hash_to_their_key', Forall(
            lambda k: IH.has(k) == b_and(mine(k), EM.H(h, content_of(V, data, k)) != SStr.of(k)))
        yield 'invalid_sizes_are_exactly_the_rows_whose_length_differs_from_the_recorded_size', Forall(
            lambda k: IS.has(k) == b_and(mine(k), content_of(V, data, k).length() != V.col('size', k)))
        yield 'overlapping_names_only_rows_of_the_pack', Forall(lambda k: implies(OV.has(k), mine(k)))

    def post(self, vc, a, o, ret):
        live, c = vc.world, a.self
        ok = isinstance(ret, MDict) and [conc(k) for k, _ in ret.pairs] == ['invalid_hashes_packed', 'invalid_sizes_packed', 'overlapping_packed']
        yield 'returns_the_three_lists', SBool.of(ok)
        if ok:
            IH, IS, OV = (elems(v) for _, v in ret.pairs)
            yield from self.result_clauses(c, o, IH, IS, OV)
        yield 'nothing_modified', SBool.of(live.ent is o.ent and live.idata is o.idata and SQL.db_of_world(live, vc).table is o.T)
        yield 'no_descriptor_leaked', SBool.of([f.num for f in live.open_fds if f.what != 'sqlite'] == o.files)

    # ---- callee mode (used by validate)
    def snapshot_callee(self, vc, a):
        st = self._state(vc, a)
        return NS(T=st.T, V=st.V, p=st.p, data=st.data)

    def havoc(self, vc, I, a):
        s = a.self.f['_operation_session']
        if s.view is None:
            s.view = a.o.V                  # the first statement pins the committed index
        lists = [MList(None, n=SInt.fresh('n'), elems=SSet.fresh(nm)) for nm in ('invalid_hashes', 'invalid_sizes', 'overlapping')]
        return MDict(list(zip(['invalid_hashes_packed', 'invalid_sizes_packed', 'overlapping_packed'], lists)))

    def post_callee(self, vc, a, o, ret):
        IH, IS, OV = (elems(v) for _, v in ret.pairs)
        yield from self.result_clauses(a.self, o, IH, IS, OV)


def vp_hook(I, tag, payload):
    vc = I.vc
    if tag == 'open_read' and vc.ghost.get('$ino') is None:
        vc.ghost['$ino'] = payload['file'].ino
    if tag == 'sql_select':
        # the statement pins the snapshot that the whole validation of this pack reads
        s = payload['session']
        if vc.ghost.get('$V') is not s.view:
            vc.ghost['$V'] = s.view


# ============================================================================= validate
def errs(L, name):
    for k, v in L.all_errors.pairs:
        if conc(k) == name:
            return elems(v)
    raise Unsupported(f'all_errors has no entry {name}')


def loose_bad(vc, c, k):
    ino = SInt(z3.Select(G(vc, '$ent0'), loose_pid(c, k).t))
    return EM.H(c.f['$hash'], SBytes(z3.Select(G(vc, '$idata0'), ino.t))) != SStr.of(k)


def va_common(vc, L):
    live = vc.world
    yield 'nothing_modified', SBool.of(live.ent is G(vc, '$ent0') and live.idata is G(vc, '$idata0')
                                       and SQL.db_of_world(live, vc).table is G(vc, '$T'))
    yield 'only_the_callers_descriptors_open', SBool.of([f.num for f in live.open_fds if f.what != 'sqlite'] == G(vc, '$files'))
    yield 'four_lists', SBool.of(sorted(conc(k) for k, _ in L.all_errors.pairs) == sorted(FIELDS4))


FIELDS4 = ['invalid_hashes_packed', 'invalid_hashes_loose', 'invalid_sizes_packed', 'overlapping_packed']


def va_loose_inv(vc, L):
    c = L.self
    done = L.done
    yield from va_common(vc, L)
    s = c.f['_operation_session']
    yield 'session_untouched', SBool.of(s is G(vc, '$session') and (s is None or (s.view is G(vc, '$view0') and not s.dirty)))
    IHL = errs(L, 'invalid_hashes_loose')
    yield 'wrong_loose_files_so_far', Forall(lambda k: IHL.has(k) == b_and(done.has(k), loose_bad(vc, c, k)))
    for n in ('invalid_hashes_packed', 'invalid_sizes_packed', 'overlapping_packed'):
        e = errs(L, n)
        yield f'{n}_still_empty', Forall(lambda k, e=e: b_not(e.has(k)))


def va_havoc(vc, L):
    L.all_errors.pairs = [(k, MList(None, n=SInt.fresh('n'), elems=SSet.fresh(conc(k)))) for k, _ in L.all_errors.pairs]


def va_packs_inv(vc, L):
    c = L.self
    yield from va_common(vc, L)
    s = c.f['_operation_session']
    ok = s is not None and s.view is not None and not s.dirty
    yield 'one_snapshot_for_all_packs', SBool.of(ok)
    if not ok:
        return
    V = s.view
    if '$Vv' not in vc.ghost:
        vc.ghost['$Vv'] = V
        vc.ghost['$loose_errors'] = errs(L, 'invalid_hashes_loose')
    yield 'snapshot_unchanged', SBool.of(V is G(vc, '$Vv'))
    pdone = L.done
    h = c.f['$hash']
    fw = FS.snap(vc.world)
    visited = lambda k: b_and(V.has(k), SBool(z3.IsMember(V.col('pack_id', k).t, pdone)))
    data_of = lambda k: fw.data(fw.inode_at(pack_pid(c, V.col('pack_id', k))))
    IHP, ISP, OVP = errs(L, 'invalid_hashes_packed'), errs(L, 'invalid_sizes_packed'), errs(L, 'overlapping_packed')
    yield 'wrong_digests_of_the_packs_done', Forall(lambda k: IHP.has(k) == b_and(visited(k), EM.H(h, content_of(V, data_of(k), k)) != SStr.of(k)))
    yield 'wrong_sizes_of_the_packs_done', Forall(lambda k: ISP.has(k) == b_and(visited(k), content_of(V, data_of(k), k).length() != V.col('size', k)))
    yield 'overlaps_name_rows_of_the_packs_done', Forall(lambda k: implies(OVP.has(k), visited(k)))
    yield 'loose_errors_untouched', errs(L, 'invalid_hashes_loose') == G(vc, '$loose_errors')


class Validate(CUnit):
    """Container.validate (callback=None) on a container whose indexed ranges are readable: the four lists of the returned
    ValidationIssues are exactly the loose files whose content does not hash to their name, the rows whose (inflated) bytes
    do not hash to their key / differ in length from the recorded size, and `overlapping` names only indexed rows; all
    packs are checked against ONE snapshot of the index; nothing is modified, nothing is left open. Hence: is_valid() is
    false whenever a loose file or an indexed range was damaged in a way that changes what is read."""
    fn = 'container:Container.validate'
    props = ('C12',)
    allowed_exc = ()
    timeout_ms = 8000
    parallel = True
    loops = {0: Loop(0, va_loose_inv, havoc=va_havoc), 1: Loop(1, va_packs_inv, havoc=va_havoc)}

    def make(self, vc, I):
        w = mk_world(vc)
        which = vc.choose(3, label='session_before_the_call')
        c = mk_container(vc, I, w, session='open' if which else 'none', hash_types=('sha256',))
        if which == 2:
            c.f['_operation_session'].view = SQL.Table.fresh('pinned')
        return NS(self=c, callback=None)

    def pre(self, vc, a):
        w, c = vc.world, a.self
        fw = FS.snap(w)
        s = c.f['_operation_session']
        T = SQL.db_of_world(w, vc).table
        yield from CWL.layout_inv(vc, w, c)
        for nm, V in (('committed', T),) + ((('pinned', s.view),) if (s is not None and s.view is not None) else ()):
            def readable(k, V=V):
                p = V.col('pack_id', k)
                ino = fw.inode_at(pack_pid(c, p))
                data = fw.data(ino)
                off, ln, comp = V.col('offset', k), V.col('length', k), V.col('compressed', k)
                return implies(V.has(k), b_and(p >= 0, ino != 0, b_not(fw.is_dir(pack_pid(c, p))), off >= 0, ln >= 0, off + ln <= data.length(),
                                               implies(comp, b_and(EM.zvalid(data.slice(off, off + ln)), ln > 0))))
            yield f'indexed_ranges_readable_{nm}', Forall(readable)

    def snapshot(self, vc, a):
        w, c = vc.world, a.self
        s = c.f['_operation_session']
        T = SQL.db_of_world(w, vc).table
        vc.ghost.update({'$T': T, '$ent0': w.ent, '$idata0': w.idata, '$session': s, '$view0': s.view if s is not None else None,
                         '$files': [f.num for f in w.open_fds if f.what != 'sqlite'], '$container': c})
        return NS(T=T, ent=w.ent, idata=w.idata, files=vc.ghost['$files'], V=(s.view if (s is not None and s.view is not None) else T))

    def post(self, vc, a, o, ret):
        live, c = vc.world, a.self
        h = c.f['$hash']
        fw = FS.snap(live)
        ok = isinstance(ret, PyObj) and ret.cls.name == 'ValidationIssues' and all(isinstance(ret.f.get(n), MList) for n in FIELDS4)
        yield 'returns_validation_issues', SBool.of(ok)
        if ok:
            V = o.V
            L0 = vc.ghost['$first:container:Container._list_loose'].items
            data_of = lambda k: fw.data(fw.inode_at(pack_pid(c, V.col('pack_id', k))))
            IHL, IHP, ISP, OVP = (elems(ret.f[n]) for n in ('invalid_hashes_loose', 'invalid_hashes_packed', 'invalid_sizes_packed', 'overlapping_packed'))
            yield 'invalid_loose_are_exactly_the_loose_files_whose_content_does_not_hash_to_their_name', Forall(
                lambda k: IHL.has(k) == b_and(L0.has(k), loose_bad(vc, c, k)))
            yield 'invalid_hashes_are_exactly_the_rows_whose_bytes_do_not_hash_to_their_key', Forall(
                lambda k: IHP.has(k) == b_and(V.has(k), EM.H(h, content_of(V, data_of(k), k)) != SStr.of(k)))
            yield 'invalid_sizes_are_exactly_the_rows_whose_length_differs_from_the_recorded_size', Forall(
                lambda k: ISP.has(k) == b_and(V.has(k), content_of(V, data_of(k), k).length() != V.col('size', k)))
            yield 'overlapping_names_only_indexed_rows', Forall(lambda k: implies(OVP.has(k), V.has(k)))
        yield 'nothing_modified', SBool.of(live.ent is o.ent and live.idata is o.idata and SQL.db_of_world(live, vc).table is o.T)
        yield 'no_descriptor_leaked', SBool.of([f.num for f in live.open_fds if f.what != 'sqlite'] == o.files)


UNITS = CM_UNITS[:1] + HP.HELPER_SUMMARIES + [HashAnyStream(), ValidatePack(), Validate()]
