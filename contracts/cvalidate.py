"""Contracts for the validation functions (C12):

  Container._validate_hashkeys_pack(pack_id): for a pack whose indexed ranges are READABLE (inside the file; compressed
  ranges are complete zlib streams -- otherwise the function raises, which is also "not clean"), the lists returned are
  EXACTLY: invalid_hashes = the rows of the pack whose (inflated) bytes do not hash to their key, invalid_sizes = the rows
  whose (inflated) length differs from the recorded size; overlapping only names rows of the pack. Nothing is modified, the
  pack file is closed again.  So a pack with a damaged object is never reported clean, and an undamaged one always is.

The hashing helper compute_hash_and_size is applied to the reader objects through its proved contract (writers.py: over
any stream obeying the read contract) composed with the proved stream contracts (streams.py: PackedObjectReader and the
decompresser obey that contract over `view.content`); the composition step itself is listed as an assumption (E-COMPOSE).
"""
import z3

from .common import *
from .cmodel import *
from . import helpers as HP
from . import streams as ST
from . import cwrite as CWL
from pyvc import sqlmodel as SQL
from pyvc.values import Unsupported

DEPENDS = ['streams', 'helpers']


def G(vc, n):
    return vc.ghost[n]


class HashAnyStream(Unit):
    """compute_hash_and_size applied to a file object / PackedObjectReader / decompresser in a state satisfying its
    representation invariant: digest and length of the rest of its content; the stream is left in an arbitrary state
    satisfying the invariant (at its end)."""
    fn = 'utils:compute_hash_and_size'
    props = ('C12',)
    trusted = True
    note = ('composition (E-COMPOSE): proved for an abstract stream obeying the read contract (writers.py) and the stream '
            'classes are proved to obey that contract (streams.py); applying the one to the other is not re-proved')

    def havoc(self, vc, I, a):
        s = a.stream
        ht = conc(a.hash_type)
        who = f'{vc.unit}:pre[utils:compute_hash_and_size]'
        if isinstance(s, EM.FileObj):
            vc.check(who + ':file_open_for_reading', SBool.of(s.closed is False and s.mode == 'rb'))
            rest = s.content().slice(s.kpos, None)
            s.kpos = s.content().length()
        elif isinstance(s, PyObj) and s.cls.name == 'PackedObjectReader':
            for n, f in ST.por_rep(s):
                vc.check(who + ':reader:' + n, f)
            v = ST.por_view(s)
            rest = v.content.slice(v.pos, None)
            ST.cs_set_pos(s, v.len)
        elif isinstance(s, PyObj) and s.cls.name == 'ZlibStreamDecompresser':
            for n, f in ST.zd_rep(s):
                vc.check(who + ':decompresser:' + n, f)
            v = ST.zd_view(s)
            rest = v.content.slice(v.pos, None)
            ST.zd_havoc(vc, s)
        elif isinstance(s, EM.AbsStream):
            rest = s.content.slice(s.pos, None)
            s.pos = s.content.length()
        else:
            raise Unsupported(f'compute_hash_and_size over {s!r}')
        return (EM.H(ht, rest), rest.length())


def elems(lst):
    if lst.items is not None:
        s = SSet.empty()
        for x in lst.items:
            s = s.add(x)
        return s
    return lst.g['elems']


def row_content(vc, k):
    """(Inflated) bytes the row of key k designates in the pack file as it was at the start."""
    T, data = G(vc, '$V'), G(vc, '$data')
    off, ln = T.col('offset', k), T.col('length', k)
    return EM.dec(T.col('compressed', k), data.slice(off, off + ln))


def in_pack(vc, k):
    T = G(vc, '$V')
    return b_and(T.has(k), T.col('pack_id', k) == G(vc, '$pack'))


def vp_inv(vc, L):
    c = L.self
    live = vc.world
    s = c.f['_operation_session']
    done = L.done
    h = c.f['$hash']
    IH, IS, OV = elems(L.invalid_hashes), elems(L.invalid_sizes), elems(L.overlapping)
    ph = L.pack_handle
    yield 'nothing_modified', SBool.of(live.ent is G(vc, '$ent0') and live.idata is G(vc, '$idata0')
                                       and SQL.db_of_world(live, vc).table is G(vc, '$T') and s is G(vc, '$session')
                                       and s.view is G(vc, '$V') and not s.dirty)
    yield 'pack_file_open_for_reading', SBool.of(isinstance(ph, EM.FileObj) and ph.closed is False and ph.mode == 'rb'
                                                 and ph.ino is G(vc, '$ino')
                                                 and [f.num for f in live.open_fds if f.what != 'sqlite'] == G(vc, '$files') + [ph.fdrec.num])
    yield 'file_position_nonneg', ph.kpos >= 0
    yield 'wrong_digests_so_far', Forall(lambda k: IH.has(k) == b_and(done.has(k), EM.H(h, row_content(vc, k)) != SStr.of(k)))
    yield 'wrong_sizes_so_far', Forall(lambda k: IS.has(k) == b_and(done.has(k), row_content(vc, k).length() != G(vc, '$V').col('size', k)))
    yield 'overlaps_name_rows_visited', Forall(lambda k: implies(OV.has(k), done.has(k)))


def vp_havoc(vc, L):
    for n in ('invalid_hashes', 'invalid_sizes', 'overlapping'):
        setattr(L, n, MList(None, n=SInt.fresh('n_' + n), elems=SSet.fresh(n)))
    ph = L.pack_handle
    ph.kpos = SInt.fresh('kpos')
    vc.assume(ph.kpos >= 0)
    if L.has('obj_reader'):
        from .cread import UNTOUCHABLE
        L.obj_reader = UNTOUCHABLE


class ValidatePack(CUnit):
    fn = 'container:Container._validate_hashkeys_pack'
    props = ('C12',)
    allowed_exc = ()
    timeout_ms = 8000
    parallel = True
    inline = ACCESSORS + ('utils:ZlibLikeBaseStreamDecompresser.__init__', 'utils:ZlibStreamDecompresser.decompressobj_class',
                          'utils:ZlibStreamDecompresser.decompress_error')
    loops = {0: Loop(0, vp_inv, havoc=vp_havoc)}

    def make(self, vc, I):
        w = mk_world(vc)
        which = vc.choose(2, label='session_before_the_call')
        c = mk_container(vc, I, w, session='open', hash_types=('sha256',))
        if which == 1:
            c.f['_operation_session'].view = SQL.Table.fresh('pinned')
        p = SInt.fresh('pack')
        return NS(self=c, pack_id=p, callback=None, p=p)

    def pre(self, vc, a):
        w, c = vc.world, a.self
        fw = FS.snap(w)
        s = c.f['_operation_session']
        V = s.view if s.view is not None else SQL.db_of_world(w, vc).table
        p = a.p
        ino = fw.inode_at(pack_pid(c, p))
        data = fw.data(ino)
        yield 'pack_id_nonneg', p >= 0
        yield 'pack_file_exists', ino != 0
        yield 'pack_path_is_a_file', b_not(fw.is_dir(pack_pid(c, p)))

        def readable(k):
            off, ln, comp = V.col('offset', k), V.col('length', k), V.col('compressed', k)
            return implies(b_and(V.has(k), V.col('pack_id', k) == p),
                           b_and(off >= 0, ln >= 0, off + ln <= data.length(),
                                 implies(comp, b_and(EM.zvalid(data.slice(off, off + ln)), ln > 0))))
        yield 'indexed_ranges_of_the_pack_are_readable', Forall(readable)

    def snapshot(self, vc, a):
        w, c = vc.world, a.self
        fw = FS.snap(w)
        s = c.f['_operation_session']
        T = SQL.db_of_world(w, vc).table
        V = s.view if s.view is not None else T
        if s.view is None:
            # the first statement of the call pins the committed index
            pass
        ino = fw.inode_at(pack_pid(c, a.p))
        vc.ghost.update({'$T': T, '$V': V, '$ent0': w.ent, '$idata0': w.idata, '$session': s, '$pack': a.p,
                         '$ino': None, '$data': fw.data(ino), '$files': [f.num for f in w.open_fds if f.what != 'sqlite']})
        vc.env_hook = vp_hook
        return NS(T=T, V=V, files=vc.ghost['$files'], ent=w.ent, idata=w.idata)

    def post(self, vc, a, o, ret):
        live, c = vc.world, a.self
        h = c.f['$hash']
        ok = isinstance(ret, MDict) and [conc(k) for k, _ in ret.pairs] == ['invalid_hashes_packed', 'invalid_sizes_packed', 'overlapping_packed']
        yield 'returns_the_three_lists', SBool.of(ok)
        if ok:
            IH, IS, OV = (elems(v) for _, v in ret.pairs)
            V = G(vc, '$V')
            yield 'invalid_hashes_are_exactly_the_rows_whose_bytes_do_not_hash_to_their_key', Forall(
                lambda k: IH.has(k) == b_and(in_pack(vc, k), EM.H(h, row_content(vc, k)) != SStr.of(k)))
            yield 'invalid_sizes_are_exactly_the_rows_whose_length_differs_from_the_recorded_size', Forall(
                lambda k: IS.has(k) == b_and(in_pack(vc, k), row_content(vc, k).length() != V.col('size', k)))
            yield 'overlapping_names_only_rows_of_the_pack', Forall(lambda k: implies(OV.has(k), in_pack(vc, k)))
        yield 'nothing_modified', SBool.of(live.ent is o.ent and live.idata is o.idata and SQL.db_of_world(live, vc).table is o.T)
        yield 'no_descriptor_leaked', SBool.of([f.num for f in live.open_fds if f.what != 'sqlite'] == o.files)


def vp_hook(I, tag, payload):
    vc = I.vc
    if tag == 'open_read' and vc.ghost.get('$ino') is None:
        vc.ghost['$ino'] = payload['file'].ino
    if tag == 'sql_select':
        # the statement pins the snapshot that the whole validation of this pack reads
        s = payload['session']
        if vc.ghost.get('$V') is not s.view:
            vc.ghost['$V'] = s.view


UNITS = CM_UNITS[:1] + HP.HELPER_SUMMARIES + [HashAnyStream(), ValidatePack()]
