"""Contracts for the loose-object write path of disk_objectstore/utils.py:
HashWriterWrapper, ObjectWriter.__enter__/__exit__, _compute_hash_for_file, compute_hash_and_size.

Abstract state of a HashWriterWrapper: (base, fed) -- the logical content of the underlying write stream is
base ++ fed, where `fed` is exactly what went through the hasher.
"""
from .common import *
from .sync import mk_world, PROFILES
from pyvc import fsmodel as FS
from pyvc.engine import ExcClass, CheckerError

DEPENDS = ['sync']


# ----------------------------------------------------------------------------- HashWriterWrapper
def hww_view(h):
    ws = h.f['_write_stream']
    return NS(ws=ws, fed=SBytes.of(h.f['_hash'].fed), pos=SInt.of(h.f['_position']), logical=ws.logical(),
              base=SBytes.of(h.f['$base']), tell=ws.kpos + slen(ws.buf))


def hww_rep(h):
    v = hww_view(h)
    return [('stream_holds_base_plus_hashed_bytes', v.logical == v.base + v.fed),
            ('position_is_logical_length', v.pos == v.logical.length()),
            ('cursor_at_end_of_file', v.ws.kpos == v.ws.content().length())]


def mk_hww(vc, I, w=None, mode=None, path=None, closed=False, consistent=True):
    w = w or vc.world or mk_world(vc)
    ino = w.new_inode(vc, SBytes.fresh('flushed'))
    mode = mode or ('wb', 'ab')[vc.choose(2, label='mode')]
    fh = EM.FileObj(w, ino, mode, path=path or FS.PathVal(SInt.fresh('dir'), (SStr.fresh('fname'),)), at_end=True)
    fh.buf = SBytes.fresh('pending')
    hname = ('sha256', 'sha1')[vc.choose(2, label='hash_type')]
    hs = EM.Hasher(hname)
    hs.fed = SBytes.fresh('fed')
    base = SBytes.fresh('base')
    h = new_obj(I, 'utils:HashWriterWrapper', _write_stream=fh, _hash_type=hname, _hash=hs, _position=SInt.fresh('position'))
    h.f['$base'] = base
    if consistent:
        for _, f in hww_rep(h):
            vc.assume(f)
    if closed:
        fh.closed = True
        w.close_fd(fh.fdrec)
    return h


class HwwBase(Unit):
    props = ('C01', 'C17')

    def pre(self, vc, a):
        yield 'stream_open', SBool.of(not a.self.f['_write_stream'].closed)
        yield from hww_rep(a.self)

    def snapshot(self, vc, a):
        return hww_view(a.self)


class HwwInit(Unit):
    fn = 'utils:HashWriterWrapper.__init__'
    props = ('C01',)
    inline = ('utils:get_hash_cls',)
    allowed_exc = ()

    def make(self, vc, I):
        w = mk_world(vc)
        ino = w.new_inode(vc, SBytes.fresh('flushed'))
        fh = EM.FileObj(w, ino, ('wb', 'ab')[vc.choose(2, label='mode')], path=FS.PathVal(SInt.fresh('dir'), ('f',)),
                        at_end=True)
        return NS(self=new_obj(I, 'utils:HashWriterWrapper'), write_stream=fh,
                  hash_type=('sha256', 'sha1')[vc.choose(2, label='hash_type')])

    def pre(self, vc, a):
        yield 'binary_write_stream', SBool.of(isinstance(a.write_stream, EM.FileObj) and 'b' in a.write_stream.mode
                                              and 'r' not in a.write_stream.mode and not a.write_stream.closed)
        yield 'known_hash', SBool.of(conc(a.hash_type) in ('sha1', 'sha256'))
        yield 'cursor_at_end_of_file', a.write_stream.kpos == a.write_stream.content().length()

    def post(self, vc, a, o, ret):
        h = a.self
        h.f['$base'] = a.write_stream.logical()
        yield 'wraps_the_stream', SBool.of(h.f['_write_stream'] is a.write_stream)
        yield 'nothing_hashed_yet', SBytes.of(h.f['_hash'].fed).length() == 0
        yield 'hash_type_kept', SBool.of(h.f['_hash'].name == conc(a.hash_type))
        for nm, f in hww_rep(h):
            yield 'rep:' + nm, f

    def havoc(self, vc, I, a):
        h = a.self
        h.f['_write_stream'] = a.write_stream
        h.f['_hash_type'] = a.hash_type
        h.f['_hash'] = EM.Hasher(conc(a.hash_type))
        h.f['_position'] = a.write_stream.kpos + slen(a.write_stream.buf)
        h.f['$base'] = a.write_stream.logical()
        return None


class HwwWrite(HwwBase):
    fn = 'utils:HashWriterWrapper.write'
    allowed_exc = ()

    def make(self, vc, I):
        return NS(self=mk_hww(vc, I), data=SBytes.fresh('data'))

    def post(self, vc, a, o, ret):
        n = hww_view(a.self)
        yield 'hashed_exactly_what_was_written', n.fed == o.fed + SBytes.of(a.data)
        yield 'returns_new_position', SInt.of(ret) == o.pos + SBytes.of(a.data).length()
        for nm, f in hww_rep(a.self):
            yield 'rep_kept:' + nm, f
        yield 'base_untouched', n.base == o.base

    def havoc(self, vc, I, a):
        h = a.self
        ws = h.f['_write_stream']
        ws.m_write(I, a.data)
        h.f['_hash'].fed = EM._cat(SBytes, h.f['_hash'].fed, a.data)
        h.f['_position'] = SInt.of(h.f['_position']) + slen(a.data)
        return h.f['_position']


class HwwWriteAfterFailedWrite(Unit):
    """C17: once an earlier write failed half-way (stream position and hashed length disagree), every further
    write is refused and nothing more reaches the file."""
    fn = 'utils:HashWriterWrapper.write'
    mode = 'inconsistent'
    props = ('C17',)
    allowed_exc = ('AssertionError',)
    verify_only = True

    def make(self, vc, I):
        h = mk_hww(vc, I, consistent=False)
        v = hww_view(h)
        vc.assume(v.pos != v.tell)
        return NS(self=h, data=SBytes.fresh('data'))

    def snapshot(self, vc, a):
        return hww_view(a.self)

    def post(self, vc, a, o, ret):
        yield 'never_accepts_a_write_on_an_inconsistent_wrapper', SBool.of(False)

    def exc(self, vc, a, o, e):
        n = hww_view(a.self)
        yield 'nothing_written', b_and(n.logical == o.logical, n.fed == o.fed)


class HwwHexdigest(HwwBase):
    fn = 'utils:HashWriterWrapper.hexdigest'

    def make(self, vc, I):
        return NS(self=mk_hww(vc, I))

    def pre(self, vc, a):
        return ()

    def post(self, vc, a, o, ret):
        yield 'digest_of_everything_written', SStr.of(ret) == EM.H(a.self.f['_hash'].name, o.fed)

    def havoc(self, vc, I, a):
        return EM.H(a.self.f['_hash'].name, a.self.f['_hash'].fed)


class HwwClose(HwwBase):
    fn = 'utils:HashWriterWrapper.close'

    def make(self, vc, I):
        return NS(self=mk_hww(vc, I))

    def pre(self, vc, a):
        return ()

    def post(self, vc, a, o, ret):
        ws = a.self.f['_write_stream']
        yield 'stream_closed', SBool.of(ws.closed)
        yield 'everything_flushed', ws.content() == o.logical

    def havoc(self, vc, I, a):
        a.self.f['_write_stream'].m_close(I)
        return None


UNITS = [HwwInit(), HwwWrite(), HwwWriteAfterFailedWrite(), HwwHexdigest(), HwwClose()]


# ----------------------------------------------------------------------------- _compute_hash_for_file
def _loop_hash_file(vc, L):
    fh = L.fhandle
    yield 'hashed_prefix_read_so_far', SBytes.of(L.hasher.fed) == fh.content().slice(0, fh.kpos)
    yield 'cursor_in_file', b_and(fh.kpos >= 0, fh.kpos <= fh.content().length())
    yield 'file_untouched', fh.content() == L.__getattr__('$content0')


def _havoc_hash_file(vc, L):
    # the havocked state is *defined* from one fresh integer (the solver then only sees arithmetic side conditions)
    fh = L.fhandle
    fh.kpos = SInt.fresh('kpos')
    L.hasher.fed = fh.content().slice(0, fh.kpos)


class ComputeHashForFile(Unit):
    fn = 'utils:_compute_hash_for_file'
    props = ('C09', 'C01', 'C12')
    inline = ('utils:get_hash_cls',)
    loops = {0: Loop(0, _loop_hash_file, havoc=_havoc_hash_file, fingerprint='True')}
    profile = {'clamped_reads': True}

    def make(self, vc, I):
        w = mk_world(vc)
        p = FS.PathVal(SInt.fresh('dir'), (SStr.fresh('fname'),))
        return NS(filepath=p, hash_type=('sha256', 'sha1')[vc.choose(2, label='hash_type')])

    def snapshot(self, vc, a):
        w = vc.world
        ino = w.inode_at(a.filepath.pid())
        vc.ghost['$content0'] = w.data(ino)
        return NS(ino=ino, content=w.data(ino), fds=[f.num for f in w.open_fds], ent=w.ent, idata=w.idata)

    def post(self, vc, a, o, ret):
        w = vc.world
        if ret is None:
            yield 'none_only_if_absent', o.ino == 0
        else:
            yield 'digest_of_the_file_content', b_and(o.ino != 0, SStr.of(ret) == EM.H(conc(a.hash_type), o.content))
        yield 'no_descriptor_leaked', SBool.of([f.num for f in w.open_fds] == o.fds)
        yield 'world_untouched', b_and(SBool(w.ent == o.ent), SBool(w.idata == o.idata))

    def havoc(self, vc, I, a):
        o = a.o
        if vc.branch(o.ino == 0, label='hashfile:absent'):
            return None
        return EM.H(conc(a.hash_type), o.content)

    def stale_result(self, vc, a):
        return None if vc.choose(2, label='cached:None') == 1 else SStr.fresh('cached_digest')


UNITS.append(ComputeHashForFile())


# ----------------------------------------------------------------------------- compute_hash_and_size
def _loop_hash_stream(vc, L):
    s = L.stream
    p0 = L.__getattr__('$pos0')
    yield 'hashed_what_was_read', SBytes.of(L.hasher.fed) == s.content.slice(p0, s.pos)
    yield 'size_counts_it', SInt.of(L.size) == s.pos - p0
    yield 'cursor_in_stream', b_and(s.pos >= p0, s.pos <= s.content.length())


def _havoc_hash_stream(vc, L):
    L.stream.pos = SInt.fresh('spos')
    L.hasher.fed = L.stream.content.slice(vc.ghost['$pos0'], L.stream.pos)


class ComputeHashAndSize(Unit):
    fn = 'utils:compute_hash_and_size'
    props = ('C01', 'C12', 'C09', 'C14')
    inline = ('utils:get_hash_cls',)
    loops = {0: Loop(0, _loop_hash_stream, havoc=_havoc_hash_stream, fingerprint='True')}

    def make(self, vc, I):
        s = EM.AbsStream(SBytes.fresh('content'), SInt.fresh('pos0'), short_reads=True)
        vc.assume(b_and(s.pos >= 0, s.pos <= s.content.length()))
        return NS(stream=s, hash_type=('sha256', 'sha1')[vc.choose(2, label='hash_type')])

    def pre(self, vc, a):
        yield 'cursor_in_stream', b_and(a.stream.pos >= 0, a.stream.pos <= a.stream.content.length())

    def snapshot(self, vc, a):
        vc.ghost['$pos0'] = a.stream.pos
        return NS(pos=a.stream.pos, rest=a.stream.content.slice(a.stream.pos, None))

    def post(self, vc, a, o, ret):
        h, size = ret
        yield 'digest_of_the_rest_of_the_stream', SStr.of(h) == EM.H(conc(a.hash_type), o.rest)
        yield 'size_is_its_length', SInt.of(size) == o.rest.length()
        yield 'stream_consumed', a.stream.pos == a.stream.content.length()

    def havoc(self, vc, I, a):
        o = a.o
        a.stream.pos = a.stream.content.length()
        return (EM.H(conc(a.hash_type), o.rest), o.rest.length())


UNITS.append(ComputeHashAndSize())


# ----------------------------------------------------------------------------- ObjectWriter
def loose_path_spec(loose_folder, n, k):
    """The loose path of key k under prefix length n, as the property states it (loose/<prefix>/<rest>)."""
    import z3
    k = SStr.of(k)
    n = SInt.of(n)
    # raw extractions (no side-condition proving: path components are only ever compared, never measured)
    first = SStr(z3.SubString(k.t, z3.IntVal(0), n.t))
    second = SStr(z3.SubString(k.t, n.t, z3.simplify(z3.Length(k.t) - n.t)))
    return NS(flat=FS.PathVal(loose_folder.base, loose_folder.parts + (k,)),
              sharded=FS.PathVal(loose_folder.base, loose_folder.parts + (first, second)))


def loose_pid(loose_folder, n, k):
    sp = loose_path_spec(loose_folder, n, k)
    return ite(SInt.of(n) == 0, sp.flat.pid(), sp.sharded.pid())


def mk_container_folders(vc):
    F = FS.PathVal(SInt.fresh('folder'))
    return NS(folder=F, sandbox=FS.PathVal(F.base, ('sandbox',)), loose=FS.PathVal(F.base, ('loose',)),
              duplicates=FS.PathVal(F.base, ('duplicates',)), packs=FS.PathVal(F.base, ('packs',)))


def mk_object_writer(vc, I, entered):
    w = mk_world(vc)
    d = mk_container_folders(vc)
    n = SInt.fresh('loose_prefix_len')
    vc.assume(n >= 0)
    hname = ('sha256', 'sha1')[vc.choose(2, label='hash_type')]
    ow = new_obj(I, 'utils:ObjectWriter', _sandbox_folder=d.sandbox, _loose_folder=d.loose,
                 _duplicates_folder=d.duplicates, _hash_type=hname, _hashkey=None, _loose_prefix_len=n, _stored=False,
                 _obj_path=None, _filehandle=None, _trust_existing=(vc.choose(2, label='trust_existing') == 1))
    ow.f['$dirs'] = d
    if entered:
        u = vc.fresh_key('uuid')
        p = FS.PathVal(d.sandbox.base, d.sandbox.parts + (u,))
        ino = w.new_inode(vc, SBytes.fresh('flushed'))
        w.set_entry(p.pid(), ino)
        fh = EM.FileObj(w, ino, 'wb', path=p, at_end=True)
        fh.buf = SBytes.fresh('pending')
        hs = EM.Hasher(hname)
        hs.fed = fh.logical()          # the sandbox file was created empty by __enter__: everything in it went through write()
        h = new_obj(I, 'utils:HashWriterWrapper', _write_stream=fh, _hash_type=hname, _hash=hs,
                    _position=fh.kpos + slen(fh.buf))
        h.f['$base'] = b''
        ow.f['_obj_path'] = p
        ow.f['_filehandle'] = h
        # the sandbox inode has no other name
        ow.f['$ino'] = ino
    return ow


class OwEnter(Unit):
    fn = 'utils:ObjectWriter.__enter__'
    props = ('C01', 'C05')
    inline = ('utils:ObjectWriter.hash_type', 'utils:ObjectWriter.get_hashkey')
    allowed_exc = ('OSError', 'ModificationNotAllowed')

    def make(self, vc, I):
        ow = mk_object_writer(vc, I, entered=False)
        if vc.choose(2, label='already_stored') == 1:
            ow.f['_stored'] = True
        return NS(self=ow)

    def snapshot(self, vc, a):
        w = vc.world
        return NS(ent=w.ent, stored=a.self.f['_stored'])

    def post(self, vc, a, o, ret):
        w = vc.world
        ow = a.self
        h = ow.f['_filehandle']
        d = NS(sandbox=ow.f['_sandbox_folder'])
        yield 'only_on_a_fresh_writer', SBool.of(o.stored is False)
        yield 'returns_the_wrapper', SBool.of(ret is h and isinstance(h, PyObj))
        fh = h.f['_write_stream']
        p = ow.f['_obj_path']
        yield 'new_file_lives_in_the_sandbox', SBool.of(isinstance(p, FS.PathVal) and p.base is d.sandbox.base
                                                         and p.parts[:-1] == d.sandbox.parts)
        yield 'sandbox_file_is_empty', fh.logical().length() == 0
        yield 'nothing_hashed_yet', SBytes.of(h.f['_hash'].fed).length() == 0
        yield 'sandbox_entry_is_the_open_file', w.inode_at(p.pid()) == fh.ino
        yield 'no_loose_entry_touched', Forall(lambda k: implies(
            SStr.of(k) != SStr.of(p.parts[-1]), True))

    def exc(self, vc, a, o, e):
        yield 'refused_only_when_reused', SBool.of(o.stored is True or e.cls.name == 'OSError')
        yield 'world_untouched', SBool(vc.world.ent == o.ent)

    # callee mode (fresh writer only: the callers under contract create the writer themselves)
    def pre_callee(self, vc, a):
        ow = a.self
        yield 'fresh_writer', SBool.of(ow.f.get('_filehandle') is None and ow.f.get('_stored') is False)

    def havoc(self, vc, I, a):
        ow = a.self
        w = FS.fs(I)
        u = vc.fresh_key('uuid')
        sb = ow.f['_sandbox_folder']
        p = FS.PathVal(sb.base, sb.parts + (u,))
        # uuid4 names are fresh (E-UUID): nothing lives at that sandbox path yet
        vc.assume(b_and(w.inode_at(p.pid()) == 0, b_not(w.is_dir(p.pid()))))
        ino = w.new_inode(vc, b'')
        w.set_entry(p.pid(), ino)
        fh = EM.FileObj(w, ino, 'wb', path=p, at_end=True)
        hs = EM.Hasher(conc(ow.f['_hash_type']))
        h = new_obj(I, 'utils:HashWriterWrapper', _write_stream=fh, _hash_type=ow.f['_hash_type'], _hash=hs, _position=SInt.of(0))
        h.f['$base'] = b''
        ow.f['_obj_path'] = p
        ow.f['_filehandle'] = h
        EM.effect(I, 'create', file=fh, path=p, ino=ino)
        return h


def _ow_hook(unit):
    """C05 / C06 effect preconditions of the loose-object publication."""
    def hook(I, tag, payload):
        vc = I.vc
        a = vc.ghost.get('$ow_args')
        if a is None or tag not in ('pre_rename', 'pre_replace'):
            return
        w = vc.world
        ino = payload['ino']
        o = vc.ghost['$ow_old']
        vc.check('publish:renamed_file_is_the_sandbox_file', ino == o.ino)
        vc.check('publish:file_complete_before_it_becomes_visible', w.data(ino) == o.fed)
        vc.check('publish:file_durable_before_it_becomes_visible', w.synced(ino) == w.data(ino).length())
        vc.check('publish:handle_closed_before_rename', SBool.of(o.fh.closed))
    return hook


class OwExit(Unit):
    fn = 'utils:ObjectWriter.__exit__'
    props = ('C01', 'C05', 'C06', 'C09', 'C18')
    inline = ('utils:ObjectWriter.hash_type', 'utils:ObjectWriter.get_hashkey', 'utils:HashWriterWrapper.closed',
              'utils:ObjectWriter._store_duplicate_copy')
    allowed_exc = ('ClosingNotAllowed',)
    profile = {'name': 'posix', 'os.name': 'posix'}

    def make(self, vc, I):
        ow = mk_object_writer(vc, I, entered=True)
        which = vc.choose(3, label='how_left')      # 0 normal, 1 body raised, 2 user closed the handle
        a = NS(self=ow, exc_type=None, value=None, traceback=None)
        if which == 1:
            a.exc_type = ExcClass('ValueError')
            a.value = ExcVal('ValueError', ())
        if which == 2:
            fh = ow.f['_filehandle'].f['_write_stream']
            fh._flush(I, 'user close')
            fh.closed = True
            vc.world.close_fd(fh.fdrec)
        a.which = which
        vc.env_hook = _ow_hook(self)
        return a

    def snapshot(self, vc, a):
        w = vc.world
        ow = a.self
        h = ow.f['_filehandle']
        fh = h.f['_write_stream']
        n = ow.f['_loose_prefix_len']
        fed = SBytes.of(h.f['_hash'].fed)
        key = EM.H(ow.f['_hash_type'], fed)
        dest = loose_pid(ow.f['_loose_folder'], n, key)
        dino = w.inode_at(dest)
        o = NS(fed=fed, key=key, dest=dest, dest_ino=dino, dest_data=w.data(dino), ino=fh.ino, fh=fh,
               fds=[f.num for f in w.open_fds if f is not fh.fdrec], ent=w.ent, sandbox=ow.f['_obj_path'].pid(),
               trust=ow.f['_trust_existing'], hname=ow.f['_hash_type'])
        vc.ghost['$ow_args'] = a
        vc.ghost['$ow_old'] = o
        return o

    def pre(self, vc, a):
        w = vc.world
        ow = a.self
        # the sandbox inode is referenced by the sandbox entry only (a uuid name is fresh): in particular not by the
        # destination
        p = ow.f['_obj_path'].pid()
        ino_ = ow.f['_filehandle'].f['_write_stream'].ino
        yield 'sandbox_entry', w.inode_at(p) == ino_
        k = EM.H(ow.f['_hash_type'], ow.f['_filehandle'].f['_hash'].fed)
        dest = loose_pid(ow.f['_loose_folder'], ow.f['_loose_prefix_len'], k)
        yield 'dest_is_another_file', w.inode_at(dest) != ino_
        # layout invariant of a container: object paths (sandbox/<uuid>, loose/[<prefix>/]<rest>) are never directories
        yield 'sandbox_path_is_no_directory', b_not(w.is_dir(p))
        yield 'loose_path_is_no_directory', b_not(w.is_dir(dest))

    def post(self, vc, a, o, ret):
        w = vc.world
        ow = a.self
        yield 'marked_stored', SBool.of(ow.f['_stored'] is True)
        yield 'sandbox_file_removed', w.inode_at(o.sandbox) == 0
        yield 'handle_closed', SBool.of(o.fh.closed)
        yield 'no_descriptor_leaked', SBool.of([f.num for f in w.open_fds] == o.fds)
        if a.which != 0:
            yield 'aborted_write_publishes_nothing', w.inode_at(o.dest) == o.dest_ino
            return
        now = w.inode_at(o.dest)
        yield 'key_is_digest_of_written_bytes', SStr.of(ow.f['_hashkey']) == o.key
        yield 'object_present_under_its_key', now != 0
        ours = (now == o.ino)
        kept = (now == o.dest_ino)
        yield 'either_ours_or_the_existing_copy', b_or(ours, kept)
        yield 'published_copy_is_exactly_the_written_bytes', implies(ours, w.data(now) == o.fed)
        yield 'published_copy_is_durable', implies(ours, w.synced(now) == w.data(now).length())
        if not o.trust:
            existing_ok = b_and(o.dest_ino != 0, EM.H(o.hname, o.dest_data) == o.key)
            yield 'correct_existing_copy_is_kept_not_duplicated', implies(existing_ok, kept)
            yield 'damaged_existing_copy_is_replaced', implies(b_and(o.dest_ino != 0, b_not(existing_ok)), ours)
            yield 'kept_copy_has_the_right_digest', implies(b_and(kept, b_not(ours)), EM.H(o.hname, w.data(now)) == o.key)
        else:
            yield 'trusted_existing_copy_is_kept', implies(o.dest_ino != 0, kept)
        yield 'existing_copy_content_untouched', implies(kept, w.data(now) == o.dest_data)

    def exc(self, vc, a, o, e):
        w = vc.world
        yield 'refuses_only_a_handle_closed_by_the_user', SBool.of(a.which == 2)
        yield 'nothing_published', w.inode_at(o.dest) == o.dest_ino
        yield 'sandbox_file_removed', w.inode_at(o.sandbox) == 0
        yield 'marked_stored', SBool.of(a.self.f['_stored'] is True)
        yield 'no_descriptor_leaked', SBool.of([f.num for f in w.open_fds] == o.fds)


    # ---- callee mode: the normal, non-aborted exit of a writer whose handle the caller did not close
    def bind_actual(self, I, f, args, kwargs):
        a = super().bind_actual(I, f, args, kwargs)
        ow = a.self
        h = ow.f.get('_filehandle')
        a.which = 0
        if a.exc_type is not None:
            a.which = 1
        elif isinstance(h, PyObj) and h.f['_write_stream'].closed:
            a.which = 2
        return a

    def exc_cases(self, vc, I, a, o):
        if a.which == 2:
            yield 'ClosingNotAllowed', None, self._abort_effect

    def _abort_effect(self, vc, I, a, o):
        w = vc.world
        ow = a.self
        if not o.fh.closed:
            o.fh.m_close(I)
        w.set_entry(o.sandbox, 0)
        ow.f['_stored'] = True

    def havoc(self, vc, I, a):
        w = vc.world
        ow = a.self
        o = a.o
        if a.which == 2:
            raise CheckerError('unreachable: the ClosingNotAllowed case is exceptional')
        if a.which == 1:
            self._abort_effect(vc, I, a, o)
            ow.f['_filehandle'] = None if False else ow.f['_filehandle']
            return None
        fh = o.fh
        fh._flush(I, 'ObjectWriter.__exit__')
        w.set_synced(fh.ino, fh.content().length())
        fh.m_close(I)
        if o.trust:
            ours = (o.dest_ino == 0)
        else:
            existing_ok = b_and(o.dest_ino != 0, EM.H(o.hname, o.dest_data) == o.key)
            ours = b_not(existing_ok)
        EM.effect(I, 'publish_loose', key=o.key, ino=fh.ino, ours=ours, dest=o.dest)
        w.set_entry(o.dest, ite(ours, o.ino, o.dest_ino))
        w.set_entry(o.sandbox, 0)
        ow.f['_hashkey'] = o.key
        ow.f['_filehandle'] = None
        ow.f['_stored'] = True
        return None


class OwExitFault(OwExit):
    """C17: any single environment call of __exit__ may fail with OSError."""
    mode = 'fault'
    props = ('C17',)
    fault_mode = True
    verify_only = True
    allowed_exc = ('ClosingNotAllowed', 'OSError')

    def post(self, vc, a, o, ret):
        if not vc.ghost.get('faulted'):
            return
        w = vc.world
        now = w.inode_at(o.dest)
        yield 'fault:visible_copy_is_complete_or_previous', b_or(now == o.dest_ino, b_and(now == o.ino, w.data(now) == o.fed))
        yield 'fault:handle_closed', SBool.of(o.fh.closed)

    def exc(self, vc, a, o, e):
        w = vc.world
        now = w.inode_at(o.dest)
        if e.cls.name == 'ClosingNotAllowed':
            yield 'refuses_only_a_handle_closed_by_the_user', SBool.of(a.which == 2)
        yield 'fault:visible_copy_is_complete_or_previous', b_or(now == o.dest_ino, b_and(now == o.ino, w.data(now) == o.fed))
        yield 'fault:marked_stored', SBool.of(a.self.f['_stored'] is True)
        yield 'fault:no_partial_object_under_the_key', implies(now == o.ino, w.data(now) == o.fed)


UNITS += [OwEnter(), OwExit(), OwExitFault()]
