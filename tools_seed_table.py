#!/usr/bin/env python3
"""Developer tool: render the detection table of DESIGN.md section 0.S.7 from seeded/*/meta.json (+ unit-level notes)."""
import json, os, re, sys
HERE = os.path.dirname(os.path.abspath(__file__))
sd = os.path.join(HERE, 'seeded')
UNIT_LEVEL = json.load(open(os.path.join(HERE, 'seeded', 'unit_level.json'))) if os.path.exists(os.path.join(HERE, 'seeded', 'unit_level.json')) else {}
rows = ['| change | what it does | reported by `check.py <property>` (quick tier) | first report |', '|---|---|---|---|']
for name in sorted(os.listdir(sd)):
    mp = os.path.join(sd, name, 'meta.json')
    if not os.path.exists(mp):
        continue
    m = json.load(open(mp))
    notes = os.path.join(sd, name, 'notes.md')
    what = ''
    if os.path.exists(notes):
        first = open(notes).readline().strip().lstrip('# ').strip()
        what = re.sub(r'^C\d\d\s*/\s*m\d\s*[-:\u2014\u2013]+\s*', '', first)
    what = what or m.get('what', '')
    det = m.get('detected_by', {})
    by = ', '.join(f"{p}: {'yes' if v.startswith('VIOLATION') else 'no'}" for p, v in sorted(det.items())) or 'not run'
    fr = m.get('first_reports', {})
    first = ''
    for p, w in fr.items():
        if w:
            first = str(w[0])[:110]
            break
    if name in UNIT_LEVEL:
        by += '; ' + UNIT_LEVEL[name]
    rows.append(f'| {name} | {what[:150]} | {by} | {first} |')
table = '\n'.join(rows)
if '--write' in sys.argv:
    p = os.path.join(HERE, 'DESIGN.md')
    s = open(p).read()
    a, b = '<!-- SEEDED-TABLE-BEGIN -->', '<!-- SEEDED-TABLE-END -->'
    if 'SEEDED_TABLE_PLACEHOLDER' in s:
        s = s.replace('SEEDED_TABLE_PLACEHOLDER', a + '\n' + table + '\n' + b)
    else:
        s = s[:s.index(a)] + a + '\n' + table + '\n' + s[s.index(b):]
    open(p, 'w').write(s)
print(table)
