#!/usr/bin/env python3
"""Developer tool: turn the confirmed candidates of seeded_incoming/ into seeded/<id>/ (patch.diff, demo.py, meta.json)."""
import json, os, re, shutil, sys
HERE = os.path.dirname(os.path.abspath(__file__))
inc = os.path.join(HERE, 'seeded_incoming')
out = os.path.join(HERE, 'seeded')
rows = []
for name in sorted(os.listdir(inc)):
    d = os.path.join(inc, name)
    cf = os.path.join(d, 'confirm.json')
    if not os.path.exists(cf):
        continue
    conf = json.load(open(cf))
    if not conf.get('confirmed'):
        print('skip (not confirmed):', name, conf.get('new_failures'))
        continue
    prop = name.split('-')[0]
    notes = open(os.path.join(d, 'notes.md')).read() if os.path.exists(os.path.join(d, 'notes.md')) else ''
    det = json.load(open(os.path.join(d, 'detect.json'))) if os.path.exists(os.path.join(d, 'detect.json')) else {}
    dst = os.path.join(out, name)
    os.makedirs(dst, exist_ok=True)
    for f in ('patch.diff', 'demo.py', 'notes.md'):
        if os.path.exists(os.path.join(d, f)):
            shutil.copy(os.path.join(d, f), os.path.join(dst, f))
    needs = ''
    m = re.search(r'(?is)(need[^\n]*manifest[^\n]*|needs?:?[^\n]*)\n?(.*?)(\n- |\n\n|$)', notes)
    for line in notes.splitlines():
        if re.search(r'(?i)need', line):
            needs = line.strip('-* ').strip()
            break
    detected = {p: {'exit': v['exit'], 'what': v.get('what', [])[:3]} for p, v in det.items()}
    meta = {
        'id': name, 'kind': 'change written by an independent sub-agent from the property text only (no access to /verif)',
        'breaks': [prop],
        'needs_to_manifest': needs or 'see notes.md',
        'demonstration': 'demo.py: PYTHONPATH=<tree> /venv/bin/python demo.py exits 1 with patch.diff applied, 0 on /repo',
        'confirmed': {'how': 'tools_seed_eval.py confirm: scratch copy of /repo HEAD under /tmp/pv (removed afterwards), patch applied with patch -p1; '
                             'demo run on /repo and on the patched copy; repository suite (pytest, 400 collected) run on the patched copy',
                      'demo_exit_unchanged': conf['demo_unchanged'], 'demo_exit_patched': conf['demo_patched'],
                      'tests_run': conf['tests_run'], 'new_test_failures': conf['new_failures'],
                      'flaky_under_load_passed_alone': conf.get('flaky_under_load_passed_alone', [])},
        'detected_by': {p: ('VIOLATION reported' if v['exit'] == 1 else 'not detected (exit %s)' % v['exit']) for p, v in detected.items()},
        'detection_measured': ('tools_seed_eval.py detect: check.py <property> --tier quick against a scratch copy of the repository sources with '
                               'patch.diff applied, run from a snapshot of /verif at commit 396ea0c' if detected else
                               'not run: the property this change targets is not claimed (MANIFEST.not_applicable) and no other check was tried'),
        'first_reports': {p: v['what'] for p, v in detected.items() if v['what']},
    }
    json.dump(meta, open(os.path.join(dst, 'meta.json'), 'w'), indent=1)
    rows.append((name, prop, meta['detected_by']))
for r in rows:
    print(r)
