#!/usr/bin/env python3
"""Developer tool (not a registered check): confirm candidate regressions and measure which checks detect them.

  tools_seed_eval.py confirm <dir> [<dir> ...]   each dir holds patch.diff + demo.py: on a scratch copy of /repo
        (under /tmp/pv, removed afterwards) check that the demo exits 0 without and 1 with the patch and that the
        repository's test suite fails only the baseline always-fail tests with the patch. Writes <dir>/confirm.json.
  tools_seed_eval.py detect <dir> <PROP> [<PROP> ...] [--tier quick]   run check.py for the properties against a scratch
        copy with the patch applied (evidence and replay files redirected to /tmp/pv/...). Writes <dir>/detect.json.
"""
import json, os, shutil, subprocess, sys, concurrent.futures as cf, re

VENV = '/venv/bin/python'
HERE = os.path.dirname(os.path.abspath(__file__))
BASE = json.load(open('/root/.vp/BASELINE.json'))
ALWAYS = set(BASE['always_fail'])


def scratch(d, full):
    name = 'seed-' + re.sub(r'[^A-Za-z0-9]+', '-', os.path.abspath(d)).strip('-')[-60:] + ('-full' if full else '')
    root = f'/tmp/pv/{name}'
    shutil.rmtree(root, ignore_errors=True)
    os.makedirs(root)
    if full:
        subprocess.run(['git', '-C', '/repo', 'archive', '--format=tar', 'HEAD', '-o', root + '/src.tar'], check=True)
        subprocess.run(['tar', '-xf', root + '/src.tar', '-C', root], check=True)
        os.unlink(root + '/src.tar')
    else:
        shutil.copytree('/repo/disk_objectstore', root + '/disk_objectstore')
    r = subprocess.run(['patch', '-s', '-p1', '-i', os.path.abspath(os.path.join(d, 'patch.diff'))], cwd=root, capture_output=True, text=True)
    if r.returncode != 0:
        raise RuntimeError('patch does not apply: ' + r.stdout + r.stderr)
    return root


def confirm(d):
    out = {'dir': d}
    try:
        root = scratch(d, True)
    except Exception as e:
        out['error'] = str(e)
        json.dump(out, open(os.path.join(d, 'confirm.json'), 'w'), indent=1)
        return out
    demo = os.path.abspath(os.path.join(d, 'demo.py'))
    env = dict(os.environ)
    def run_demo(tree):
        e = dict(env, PYTHONPATH=tree)
        try:
            r = subprocess.run([VENV, demo], cwd='/tmp', env=e, capture_output=True, text=True, timeout=1800)
            return r.returncode, (r.stdout + r.stderr)[-1500:]
        except subprocess.TimeoutExpired:
            return -9, 'timeout'
    out['demo_unchanged'], t0 = run_demo('/repo')
    out['demo_patched'], t1 = run_demo(root)
    out['demo_patched_tail'] = t1
    junit = root + '/junit.xml'
    e = dict(env, PYTHONPATH=root)
    subprocess.run([VENV, '-m', 'pytest', '-q', '-p', 'no:cacheprovider', '--timeout=900', '--continue-on-collection-errors',
                    '--junitxml=' + junit, 'tests'], cwd=root, env=e, capture_output=True, text=True)
    import xml.etree.ElementTree as ET
    failed, n = [], 0
    for tc in ET.parse(junit).getroot().iter('testcase'):
        n += 1
        if tc.find('failure') is not None or tc.find('error') is not None:
            failed.append(tc.get('classname') + '::' + tc.get('name'))
    out['tests_run'] = n
    new = sorted(set(failed) - ALWAYS)
    if new and all(t.startswith('tests.test_concurrency::') for t in new):
        # multi-process timing tests: flaky when the machine is loaded; re-run them alone (twice) on the patched tree
        ids = ['tests/test_concurrency.py::' + t.split('::', 1)[1] for t in new]
        ok = all(subprocess.run([VENV, '-m', 'pytest', '-q', '-p', 'no:cacheprovider', '--timeout=900'] + ids, cwd=root, env=e,
                                capture_output=True, text=True).returncode == 0 for _ in range(2))
        out['flaky_under_load_passed_alone'] = new if ok else []
        if ok:
            new = []
    out['new_failures'] = new
    out['confirmed'] = out['demo_unchanged'] == 0 and out['demo_patched'] == 1 and not out['new_failures'] and n > 300
    shutil.rmtree(root, ignore_errors=True)
    json.dump(out, open(os.path.join(d, 'confirm.json'), 'w'), indent=1)
    return out


def detect(d, props, tier):
    root = scratch(d, False)
    res = {}
    def one(p):
        e = dict(os.environ, VERIF_REPO=root, VERIF_OUT_DIR=root + '/out', VERIF_EVIDENCE_DIR=root + '/evidence')
        r = subprocess.run(['python3', os.path.join(HERE, 'check.py'), p, '--tier', tier], cwd=HERE, env=e, capture_output=True, text=True)
        lines = [l for l in r.stdout.splitlines() if l.startswith(('VIOLATION', 'KNOWN'))]
        detail = []
        for l in lines[:4]:
            m = re.search(r'replay=(\S+)', l)
            if m and os.path.exists(m.group(1)):
                try:
                    j = json.load(open(m.group(1)))
                    detail.append(j.get('failed_obligation') or j.get('msg') or str(j)[:200])
                except Exception:
                    pass
        return p, {'exit': r.returncode, 'violations': len(lines), 'what': detail, 'tail': r.stdout.splitlines()[-1:] + r.stderr.splitlines()[-2:]}
    with cf.ThreadPoolExecutor(max_workers=4) as ex:
        for p, v in ex.map(one, props):
            res[p] = v
    shutil.rmtree(root, ignore_errors=True)
    old = {}
    fp = os.path.join(d, 'detect.json')
    if os.path.exists(fp):
        old = json.load(open(fp))
    old.update(res)
    json.dump(old, open(fp, 'w'), indent=1)
    return res


if __name__ == '__main__':
    cmd = sys.argv[1]
    if cmd == 'confirm':
        with cf.ThreadPoolExecutor(max_workers=6) as ex:
            for o in ex.map(confirm, sys.argv[2:]):
                print(o['dir'], 'confirmed' if o.get('confirmed') else 'NOT CONFIRMED', {k: v for k, v in o.items() if k not in ('dir', 'demo_patched_tail')})
    elif cmd == 'detect':
        args = [a for a in sys.argv[2:] if not a.startswith('--')]
        tier = 'thorough' if '--thorough' in sys.argv else 'quick'
        r = detect(args[0], args[1:], tier)
        for p, v in r.items():
            print(args[0], p, 'exit', v['exit'], v['what'][:2], v['tail'][:1])
