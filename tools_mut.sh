#!/bin/sh
# usage: tools_mut.sh <patch.diff> <name>  -> creates a scratch copy /tmp/pv/<name> of /repo (source only) with the patch applied
set -e
P=$(readlink -f "$1"); N=$2
rm -rf /tmp/pv/$N; mkdir -p /tmp/pv/$N
cp -r /repo/disk_objectstore /tmp/pv/$N/
cd /tmp/pv/$N && patch -s -p1 < "$P"
echo /tmp/pv/$N
